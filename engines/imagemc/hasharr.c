/* hasharr.c - E5: explicit-state search over qhasharr memory images (C06, C07, with C11/C12 oracles).
 *   hasharr <M>            BFS over all reachable images of a table with M slots
 *   hasharr bigkey         single cases with a 65535-byte key
 * A state is the (residue-free) byte image of the user region. Every transition restores it by memcpy into a fresh,
 * exactly-ending heap block at another address/alignment, attaches a new handle with qhasharr(mem, 0), performs one
 * operation and observes through that handle, through a second handle on the same region and through a third handle
 * on a byte copy at yet another address.
 */
#include "vc.h"
#include "vc_alloc.h"
#include "bfs.h"
#include "refhash.h"
#include "qlibc.h"

#define NK 6
#define NLEN 6
static const int LENS[NLEN] = {1, 32, 33, 98, 99, 33};   /* index 5: a second 33-byte value that equals index 2 up to (and beyond) an embedded NUL and differs in its last byte; put for keys 0 and 4 only */
static int M; static size_t REGSZ;
static char KEYS[NK][40]; static size_t KEYN[NK]; static int HOME[NK];
typedef struct { signed char len[NK]; } model_t;      /* -1 absent, else index into LENS */
#define EXTBYTES ((int)sizeof(((qhasharr_slot_t *)0)->data.ext.data))
static int slots_for(int len) { return 1 + (len > 32 ? (len - 32 + EXTBYTES - 1) / EXTBYTES : 0); }
static int m_used(const model_t *m) { int u = 0; for (int k = 0; k < NK; k++) if (m->len[k] >= 0) u += slots_for(LENS[m->len[k]]); return u; }
static int m_num(const model_t *m) { int u = 0; for (int k = 0; k < NK; k++) u += m->len[k] >= 0; return u; }
static void value_of(int k, int li, unsigned char *out) { int l2 = li == 5 ? 2 : li; for (int i = 0; i < LENS[li]; i++) out[i] = (unsigned char)(0x30 + 37 * k + 11 * l2 + i * 7); out[0] = (unsigned char)('A' + k); if (LENS[li] == 33) { out[1] = 0; if (li == 5) out[32] ^= 0xff; } }

/* ---------- universe: keys with forced home slots, found with the independent MurmurHash3 ---------- */
static void find_keys(void) {
    int want[4] = {0, 0, M > 1 ? 1 : 0, M - 1}, n = 0;
    for (int w = 0; w < 4; w++) for (int i = 0; i < 100000; i++) {
        char s[16]; snprintf(s, sizeof s, "k%d", i);
        int dup = 0; for (int j = 0; j < n; j++) dup |= !strcmp(KEYS[j], s);
        if (dup) continue;
        if ((int)(ref_mm32(s, strlen(s) + 1) % M) == want[w]) { strcpy(KEYS[n], s); KEYN[n] = strlen(s) + 1; HOME[n] = want[w]; n++; break; }
    }
    /* two long keys: same length, same 16-byte prefix, same home; matched by length + prefix + MD5 only */
    int home = M > 1 ? 1 : 0;      /* next to the chain of home 0, so that two collision chains interleave (A1@0 B1@1 B2@2 A2@3) */
    for (int i = 0; i < 100000 && n < NK; i++) {
        char s[40]; snprintf(s, sizeof s, "long-key-prefix-%08d", i);
        int h = ref_mm32(s, strlen(s) + 1) % M;
        if (h == home) { strcpy(KEYS[n], s); KEYN[n] = strlen(s) + 1; HOME[n] = h; n++; }
    }
}
static int keyid_full(const void *name, size_t n) { for (int k = 0; k < NK; k++) if (KEYN[k] == n && !memcmp(KEYS[k], name, n)) return k; return -1; }

/* ---------- region placement ---------- */
typedef struct { unsigned char *block, *reg; size_t off; } place_t;
static int place_rot;
static place_t place_new(const unsigned char *image) {
    place_t p; p.off = 16 + 4 * (place_rot++ & 3);        /* guard bytes in front; region ends exactly at the block end */
    p.block = malloc(p.off + REGSZ); memset(p.block, 0x5C, p.off); p.reg = p.block + p.off;
    memcpy(p.reg, image, REGSZ);
    return p;
}
/* the byte copy that is only observed (never operated on) goes to every alignment 0..7 in rotation: "a byte-for-byte copy at a
 * different address" need not be aligned like the original (a table embedded behind a header of odd size in a larger segment) */
static int place_rot_any;
static place_t place_new_any(const unsigned char *image) {
    place_t p; p.off = 16 + (place_rot_any++ & 7);
    p.block = malloc(p.off + REGSZ); memset(p.block, 0x5C, p.off); p.reg = p.block + p.off;
    memcpy(p.reg, image, REGSZ);
    return p;
}
static void place_free(place_t *p, const char *after) {
    for (size_t i = 0; i < p->off; i++) if (p->block[i] != 0x5C) { vc_viol("guard:before-region", "after %s: byte %zu before the user region was overwritten", after, p->off - i); break; }
    free(p->block);
}

/* ---------- slot access (public layout) ---------- */
static qhasharr_slot_t *SL(unsigned char *reg) { return (qhasharr_slot_t *)(reg + sizeof(qhasharr_data_t)); }
static qhasharr_data_t *HD(unsigned char *reg) { return (qhasharr_data_t *)reg; }
#define EXTSZ ((int)sizeof(struct Q_HASHARR_SLOT_EXT))

/* residue: bytes the structure does not use. fill = 0 canonical, 0xFF for the differential run */
static void set_residue(unsigned char *reg, unsigned char fill) {
    qhasharr_slot_t *s = SL(reg);
    for (int i = 0; i < M; i++) {
        short c = s[i].count;
        if (c == 0) { memset(&s[i], fill, sizeof s[i]); s[i].count = 0; continue; }
        qhasharr_slot_t t; memset(&t, fill, sizeof t);
        t.count = c; t.hash = s[i].hash; t.datasize = s[i].datasize; t.link = s[i].link;
        if (c == -2) memcpy(t.data.ext.data, s[i].data.ext.data, s[i].datasize <= EXTSZ ? s[i].datasize : EXTSZ);
        else {
            memcpy(t.data.pair.data, s[i].data.pair.data, s[i].datasize <= 32 ? s[i].datasize : 32);
            size_t ns = s[i].data.pair.namesize; memcpy(t.data.pair.name, s[i].data.pair.name, ns < 16 ? ns : 16);
            t.data.pair.namesize = s[i].data.pair.namesize; memcpy(t.data.pair.namemd5, s[i].data.pair.namemd5, 16);
        }
        s[i] = t;
    }
}
static uint64_t h64(const void *p, size_t n) { return vc_hash(p, n); }
/* canonical key: the fields the structure uses, slot by slot */
static void canon(unsigned char *reg, char *out) {
    qhasharr_slot_t *s = SL(reg); char *p = out;
    p += sprintf(p, "%d/%d/%d", HD(reg)->maxslots, HD(reg)->usedslots, HD(reg)->num);
    for (int i = 0; i < M; i++) {
        short c = s[i].count;
        if (c == 0) { *p++ = '|'; *p++ = '.'; continue; }
        if (c == -2) p += sprintf(p, "|x%u>%d:%d:%llx", s[i].hash, s[i].link, s[i].datasize, (unsigned long long)h64(s[i].data.ext.data, s[i].datasize <= EXTSZ ? s[i].datasize : EXTSZ) & 0xffffff);
        else {
            size_t ns = s[i].data.pair.namesize;
            p += sprintf(p, "|%d@%u>%d:%d:%llx:%zu:%llx:%llx", c, s[i].hash, s[i].link, s[i].datasize, (unsigned long long)h64(s[i].data.pair.data, s[i].datasize <= 32 ? s[i].datasize : 32) & 0xffffff,
                         ns, (unsigned long long)h64(s[i].data.pair.name, ns < 16 ? ns : 16) & 0xffffff, (unsigned long long)h64(s[i].data.pair.namemd5, 16) & 0xffffff);
        }
    }
    *p = 0;
}

/* ---------- well-formedness (C07), independent of the library's own traversal code ---------- */
static long n_wf, kinds_seen[4], n_reloc, n_promote, n_soft;
static void wellformed(unsigned char *reg, const model_t *m, const char *after) {
    qhasharr_slot_t *s = SL(reg); qhasharr_data_t *h = HD(reg);
    n_wf++;
    int used = 0, keys = 0, owner[16]; for (int i = 0; i < M; i++) owner[i] = -1;
    if (h->maxslots != M) { vc_viol("image:header", "after %s: maxslots %d != %d", after, h->maxslots, M); return; }
    for (int i = 0; i < M; i++) {
        short c = s[i].count;
        if (c == 0) { kinds_seen[0]++; continue; }
        used++;
        if (c == -2) { kinds_seen[3]++; continue; }
        if (c < -2) { vc_viol("image:slot-kind", "after %s: slot %d has count %d", after, i, c); return; }
        keys++;
        if (c >= 1) {   /* leading key slot */
            kinds_seen[1]++;
            if ((int)s[i].hash != i) vc_viol("image:leading-hash", "after %s: leading slot %d records home %u", after, i, s[i].hash);
            int coll = 0; for (int j = 0; j < M; j++) if (s[j].count == -1 && (int)s[j].hash == i) coll++;
            if (coll != c - 1) vc_viol("image:collision-count", "after %s: slot %d says %d keys share its home, %d collision slots point to it", after, i, c, coll);
        } else {        /* collision key */
            kinds_seen[2]++;
            if ((int)s[i].hash < 0 || (int)s[i].hash >= M || s[s[i].hash].count < 1) vc_viol("image:collision-home", "after %s: collision slot %d points to slot %u which is not a leading slot", after, i, s[i].hash);
        }
        size_t ns = s[i].data.pair.namesize;
        if (ns <= 16) { int home = ref_mm32(s[i].data.pair.name, ns) % M; int rec = c >= 1 ? i : (int)s[i].hash; if (home != rec) vc_viol("image:home-index", "after %s: key in slot %d hashes to home %d but is filed under %d", after, i, home, rec); }
        /* value chain */
        int cur = i, prev = -1, steps = 0;
        for (;;) {
            if (owner[cur] != -1) { vc_viol("image:shared-slot", "after %s: slot %d belongs to two chains", after, cur); break; }
            owner[cur] = i;
            if (cur != i) {
                if (s[cur].count != -2) { vc_viol("image:chain-kind", "after %s: value chain of slot %d runs through slot %d which is not an extension block", after, i, cur); break; }
                if ((int)s[cur].hash != prev) vc_viol("image:chain-backlink", "after %s: extension block %d names predecessor %u, expected %d", after, cur, s[cur].hash, prev);
            }
            int cap = cur == i ? 32 : EXTSZ;
            if (s[cur].datasize > cap) vc_viol("image:chain-size", "after %s: slot %d holds %d bytes", after, cur, s[cur].datasize);
            int nx = s[cur].link;
            if (nx == -1) break;
            if (s[cur].datasize != cap) vc_viol("image:chain-partial-block", "after %s: block %d is not the last one but is not full", after, cur);
            if (nx < 0 || nx >= M || ++steps > M) { vc_viol("image:chain-broken", "after %s: value chain of slot %d leaves the table or loops", after, i); break; }
            prev = cur; cur = nx;
        }
    }
    for (int i = 0; i < M; i++) if (s[i].count == -2 && owner[i] == -1) vc_viol("image:orphan-block", "after %s: extension block %d belongs to no key", after, i);
    if (h->usedslots != used) vc_viol("image:usedslots", "after %s: header usedslots %d, %d slots are occupied", after, h->usedslots, used);
    if (h->num != keys) vc_viol("image:num", "after %s: header num %d, %d key slots", after, h->num, keys);
    (void)m;
}

/* ---------- observation through one handle: returns a digest string ---------- */
static long n_copies, n_scribbled;
static void observe(qhasharr_t *t, const model_t *m, int check, const char *who, const char *after, char *digest) {
    char *p = digest;
    int maxs = -1, useds = -1; int num = t->size(t, &maxs, &useds);
    p += sprintf(p, "%d,%d,%d;", num, maxs, useds);
    if (check && (num != m_num(m) || maxs != M || useds != m_used(m))) vc_viol("space:accounting", "after %s (%s): size() reports (%d keys, %d slots, %d used), expected (%d, %d, %d)", after, who, num, maxs, useds, m_num(m), M, m_used(m));
    unsigned char exp[128];
    for (int k = 0; k < NK; k++) {
        char *kb = malloc(KEYN[k]); memcpy(kb, KEYS[k], KEYN[k]);
        size_t sz = 7777; errno = 0;
        void *d = (k & 1) ? t->get_by_obj(t, kb, KEYN[k], &sz) : t->get(t, kb, &sz);
        int e = errno;
        if (check) { void *d2 = (k & 1) ? t->get_by_obj(t, kb, KEYN[k], NULL) : t->get(t, kb, NULL); if ((d2 != NULL) != (d != NULL)) vc_viol("image:get-null-size-pointer", "after %s (%s): get of key %d without a size pointer disagrees with get with one", after, who, k); free(d2); }
        memset(kb, 0xA5, KEYN[k]); free(kb); n_scribbled++;
        if (d) { p += sprintf(p, "%d=%zu:%llx;", k, sz, (unsigned long long)h64(d, sz) & 0xffffff); } else p += sprintf(p, "%d=-;", k);
        if (check) {
            if (m->len[k] < 0) { if (d) vc_viol("image:get-absent", "after %s (%s): get of absent key %d returned data", after, who, k); else if (e != ENOENT) vc_viol("image:get-errno", "after %s (%s): errno %d", after, who, e); }
            else { value_of(k, m->len[k], exp); if (!d) vc_viol("image:get-missing", "after %s (%s): stored key %d not found", after, who, k); else if ((int)sz != LENS[m->len[k]] || memcmp(d, exp, sz)) vc_viol("image:get-value", "after %s (%s): key %d returns %zu bytes that differ from the %d bytes put", after, who, k, sz, LENS[m->len[k]]); }
        }
        if (d) { n_copies++; free(d); }
    }
    /* walk */
    int idx = 0, steps = 0, seen[NK] = {0}; qhasharr_obj_t ob;
    while (t->getnext(t, &ob, &idx)) {
        if (++steps > M + 1) { if (check) vc_viol("image:walk-endless", "after %s (%s): walk returned more than %d entries", after, who, M + 1); free(ob.name); free(ob.data); break; }
        int k = -1;
        for (int j = 0; j < NK; j++) { size_t ns = KEYN[j] < 16 ? KEYN[j] : 16; if (m->len[j] >= 0 && !seen[j] && ob.namesize == ns && !memcmp(ob.name, KEYS[j], ns) && (int)ob.datasize == LENS[m->len[j]]) { value_of(j, m->len[j], exp); if (!memcmp(ob.data, exp, ob.datasize)) { k = j; break; } } }
        p += sprintf(p, "w%d;", k);
        if (k < 0) { if (check) vc_viol("image:walk-entry", "after %s (%s): walk returned an entry that matches no stored key/value", after, who); }
        else seen[k] = 1;
        if (((char *)ob.name)[ob.namesize] != 0 && check) vc_viol("image:walk-name", "after %s (%s): returned name is not terminated", after, who);
        free(ob.name); free(ob.data); n_copies += 2;
    }
    if (check) for (int k = 0; k < NK; k++) if (m->len[k] >= 0 && !seen[k]) { vc_viol("image:walk-missed", "after %s (%s): walk never returned stored key %d", after, who, k); break; }
    *p = 0;
}

/* ---------- operations ---------- */
enum { OP_PUT, OP_REMOVE, OP_REMOVEIDX, OP_CLEAR, OP_WALKRM };
typedef struct { int kind, k, li; const char *label; } op_t;
static op_t OPS[64]; static int NOPS;
static int slot_key(unsigned char *reg, int i) {   /* which universe key lives in key slot i (by length, prefix, digest) */
    if (i < 0 || i >= M) return -1;   /* not a slot of this table: remove_by_idx must refuse without touching anything */
    qhasharr_slot_t *s = SL(reg); if (s[i].count == 0 || s[i].count == -2) return -1;
    for (int k = 0; k < NK; k++) {
        if (s[i].data.pair.namesize != KEYN[k] || memcmp(s[i].data.pair.name, KEYS[k], KEYN[k] < 16 ? KEYN[k] : 16)) continue;
        unsigned char md[16]; qhashmd5(KEYS[k], KEYN[k], md);
        if (KEYN[k] <= 16 || !memcmp(md, s[i].data.pair.namemd5, 16)) return k;
    }
    return -2;
}
static long n_walkrm;
static int keyid_prefix(const void *name, size_t ns, unsigned char *reg, int slot) { (void)name; (void)ns; int k = slot_key(reg, slot); return k >= 0 ? k : -1; }
/* run op on region through a fresh handle; returns result code: 0 false / 1 true, and errno in *er; updates the model if check */
static int run_op(unsigned char *reg, const op_t *op, model_t *m, int check, const char *after, int *er) {
    qhasharr_t *t = qhasharr(reg, 0);
    int r = 0; *er = 0;
    switch (op->kind) {
        case OP_PUT: {
            int len = LENS[op->li]; unsigned char val[128]; value_of(op->k, op->li, val);
            char *kb = malloc(KEYN[op->k]); memcpy(kb, KEYS[op->k], KEYN[op->k]);
            unsigned char *vb = malloc(len); memcpy(vb, val, len);
            int fre = M - m_used(m), old = m->len[op->k] >= 0 ? slots_for(LENS[m->len[op->k]]) : 0, need = slots_for(len);
            int fits = fre >= 1 && need <= fre + old;
            errno = 0;
            r = (op->k & 1) ? t->put_by_obj(t, kb, KEYN[op->k], vb, len) : t->put(t, kb, vb, len);
            *er = errno;
            memset(kb, 0xA5, KEYN[op->k]); free(kb); memset(vb, 0xA5, len); free(vb); n_scribbled += 2;
            if (check) {
                if (r != fits) vc_viol("space:put-decision", "%s: put of %d bytes (%d slots) with %d free slots and %d released by the old value returned %d", after, len, need, fre, old, r);
                if (!r && !fits && *er != ENOBUFS) vc_viol("space:put-errno", "%s: refused put sets errno %d, not ENOBUFS", after, *er);
                if (r) m->len[op->k] = op->li;
                else {   /* own key: unchanged or absent, never partial - decided by a get */
                    size_t sz = 0; void *d = t->get_by_obj(t, KEYS[op->k], KEYN[op->k], &sz);
                    if (!d) m->len[op->k] = -1;
                    else { unsigned char e2[128]; int ok = 0; if (m->len[op->k] >= 0) { value_of(op->k, m->len[op->k], e2); ok = (int)sz == LENS[m->len[op->k]] && !memcmp(d, e2, sz); } if (!ok) { vc_viol("space:partial-put", "%s: after the refused put the key holds neither its old value nor nothing (%zu bytes)", after, sz); m->len[op->k] = -1; } free(d); }
                }
            }
            break;
        }
        case OP_REMOVE: {
            char *kb = malloc(KEYN[op->k]); memcpy(kb, KEYS[op->k], KEYN[op->k]); errno = 0;
            r = (op->k & 1) ? t->remove_by_obj(t, kb, KEYN[op->k]) : t->remove(t, kb);
            *er = errno; memset(kb, 0xA5, KEYN[op->k]); free(kb); n_scribbled++;
            if (check) { if (r != (m->len[op->k] >= 0)) vc_viol("image:remove-result", "%s: remove returned %d, key was %s", after, r, m->len[op->k] >= 0 ? "present" : "absent"); m->len[op->k] = -1; }
            break;
        }
        case OP_REMOVEIDX: {
            int k = slot_key(reg, op->k);
            errno = 0; r = t->remove_by_idx(t, op->k); *er = errno;
            if (check) {
                if (k == -2) vc_viol("image:foreign-slot", "%s: slot %d holds a key that is not in the universe", after, op->k);
                else if (r != (k >= 0)) vc_viol("image:removeidx-result", "%s: remove_by_idx(%d) returned %d, slot %s a key", after, op->k, r, k >= 0 ? "holds" : "does not hold");
                if (k >= 0 && r) m->len[k] = -1;
            }
            break;
        }
        case OP_CLEAR: t->clear(t); r = 1; if (check) for (int k = 0; k < NK; k++) m->len[k] = -1; break;
        case OP_WALKRM: {   /* the documented loop: getnext; remove_by_idx(idx - 1) for the j-th element; idx--; go on. Every other key must still be visited */
            int idx = 0, n = 0, seen[NK] = {0}, removed = -1; qhasharr_obj_t ob;
            while (t->getnext(t, &ob, &idx)) {
                n++;
                int k = keyid_prefix(ob.name, ob.namesize, reg, idx - 1);
                free(ob.name); free(ob.data);
                if (k >= 0) seen[k]++;
                if (n == op->k && removed < 0) {
                    removed = k >= 0 ? k : NK;
                    int rr = t->remove_by_idx(t, idx - 1);
                    if (check && !rr) vc_viol("image:removeidx-result", "%s: remove_by_idx(%d) inside the walk failed for the element just returned", after, idx - 1);
                    if (check && k >= 0) m->len[k] = -1;
                    idx--;
                }
                if (n > 2 * M + 2) { if (check) vc_viol("image:walk-endless", "%s: walk with removal returned more than %d entries", after, 2 * M + 2); break; }
            }
            if (check && removed >= 0) { n_walkrm++; for (int k = 0; k < NK; k++) if (m->len[k] >= 0 && !seen[k]) vc_viol("image:walk-missed", "%s: walk that removed its element %d never returned stored key %d", after, op->k, k); }
            r = removed >= 0;
            break;
        }
    }
    t->free(t);
    return r;
}

/* ---------- search ---------- */
static unsigned char *IMG; static size_t img_cap; static model_t *MOD;
static long n_trans, n_diff, n_reloc_runs;
static void img_store(long idx, const unsigned char *reg, const model_t *m) {
    if ((size_t)(idx + 1) * REGSZ > img_cap) { while ((size_t)(idx + 1) * REGSZ > img_cap) img_cap *= 2; IMG = __real_realloc(IMG, img_cap); MOD = __real_realloc(MOD, sizeof(model_t) * (img_cap / REGSZ + 1)); }
    memcpy(IMG + idx * REGSZ, reg, REGSZ); MOD[idx] = *m;
}
/* one transition from (image, model) with op; fills ckey/newimage/newmodel; returns 0 */
static int transition(const unsigned char *image, const model_t *m0, int opi, char *ckey, unsigned char *newimage, model_t *m1) {
    char after[48]; snprintf(after, sizeof after, "op %d", opi);
    static char d1[2048], d2[2048], d3[2048], c2[4096];
    long live0 = va_live;
    /* (1) the stored (residue-free) image at a fresh address */
    place_t p = place_new(image); *m1 = *m0; int e1, e2;
    qhasharr_slot_t before[16]; memcpy(before, SL(p.reg), sizeof(qhasharr_slot_t) * M);
    /* copies taken before the operation: they must stay intact when their element is replaced, removed or cleared */
    void *pre[NK]; size_t presz[NK];
    { qhasharr_t *h0 = qhasharr(p.reg, 0); for (int k = 0; k < NK; k++) { pre[k] = m0->len[k] >= 0 ? h0->get_by_obj(h0, KEYS[k], KEYN[k], &presz[k]) : NULL; } h0->free(h0); }
    int r1 = run_op(p.reg, &OPS[opi], m1, 1, after, &e1);
    for (int k = 0; k < NK; k++) if (pre[k]) { unsigned char ex[128]; value_of(k, m0->len[k], ex); n_copies++; if ((int)presz[k] != LENS[m0->len[k]] || memcmp(pre[k], ex, presz[k])) vc_viol("ownership:copy-changed", "after %s: the copy of key %d taken before the operation changed", after, k); free(pre[k]); }
    { long w0 = vc_nviol; wellformed(p.reg, m1, after); n_soft += vc_nviol - w0; }   /* structural findings do not prune the search: the map oracle goes on from the damaged image */
    /* relocation / promotion bookkeeping for the vacuity guard */
    for (int i = 0; i < M; i++) { qhasharr_slot_t *s = SL(p.reg); if (before[i].count < 0 && s[i].count >= 1 && OPS[opi].kind == OP_PUT) n_reloc++; if (before[i].count > 1 && s[i].count >= 1 && OPS[opi].kind != OP_PUT && before[i].data.pair.namesize && memcmp(before[i].data.pair.namemd5, s[i].data.pair.namemd5, 16)) n_promote++; }
    qhasharr_t *h1 = qhasharr(p.reg, 0); observe(h1, m1, 1, "first handle", after, d1);
    /* second live handle on the same region */
    qhasharr_t *h2 = qhasharr(p.reg, 0); observe(h2, m1, 0, "second handle", after, d2);
    if (strcmp(d1, d2)) vc_viol("image:second-handle", "after %s: a second handle on the same memory observes different contents", after);
    h2->free(h2); h1->free(h1);
    /* byte copy at a third address */
    place_t q = place_new_any(p.reg); qhasharr_t *h3 = qhasharr(q.reg, 0); observe(h3, m1, 0, "relocated copy", after, d3);
    if (strcmp(d1, d3)) vc_viol("image:relocated-copy", "after %s: a byte copy of the region at another address observes different contents", after);
    h3->free(h3); place_free(&q, after);
    /* (e) no process address in the image: the same operation from the same image at yet another address and
     * alignment must leave byte-identical memory (every byte, residue included) */
    { place_t g = place_new(image); model_t mg = *m0; int eg; int rg = run_op(g.reg, &OPS[opi], &mg, 0, after, &eg);
      if (rg != r1 || memcmp(g.reg, p.reg, REGSZ)) { size_t at = 0; while (at < REGSZ && g.reg[at] == p.reg[at]) at++; vc_viol("image:address-dependent", "after %s: the same operation on the same image at another address leaves different bytes (first at offset %zu)", after, at); }
      place_free(&g, after); n_reloc_runs++; }
    memcpy(newimage, p.reg, REGSZ); set_residue(newimage, 0); canon(newimage, ckey);
    place_free(&p, after);
    /* (2) differential: same op from the image with 0xFF in every unused byte: same result, same canonical successor */
    unsigned char *ff = malloc(REGSZ); memcpy(ff, image, REGSZ); set_residue(ff, 0xFF);
    place_t f = place_new(ff); free(ff); model_t mf = *m0;
    int r2 = run_op(f.reg, &OPS[opi], &mf, 0, after, &e2);
    unsigned char *fr = malloc(REGSZ); memcpy(fr, f.reg, REGSZ); set_residue(fr, 0); canon(fr, c2); free(fr);
    if (r1 != r2 || strcmp(ckey, c2)) vc_viol("image:residue-dependence", "after %s: behaviour depends on bytes outside the live structure (result %d vs %d)", after, r1, r2);
    place_free(&f, after); n_diff++;
    if (va_live != live0) vc_viol("leak:blocks", "after %s: %ld heap blocks leaked by the handles", after, va_live - live0);
    const char *a = vc_asan_check();
    if (a) { char cls[160]; snprintf(cls, sizeof cls, "asan:%s:%s", a, OPS[opi].label); vc_viol(cls, "sanitizer report during op %d", opi); }
    n_trans++;
    return 0;
}
static void setup(void) {
    REGSZ = qhasharr_calculate_memsize(M);
    find_keys();
    NOPS = 0;
    for (int k = 0; k < NK; k++) for (int li = 0; li < NLEN; li++) if (li < 5 || k == 0 || k == 4) OPS[NOPS++] = (op_t){OP_PUT, k, li, (k & 1) ? "qhasharr_put_by_obj" : "qhasharr_put"};
    for (int k = 0; k < NK; k++) OPS[NOPS++] = (op_t){OP_REMOVE, k, 0, (k & 1) ? "qhasharr_remove_by_obj" : "qhasharr_remove"};
    for (int i = -1; i <= M + 1; i++) OPS[NOPS++] = (op_t){OP_REMOVEIDX, i, 0, "qhasharr_remove_by_idx"};   /* -1, M, M+1: indexes that are no slot */
    OPS[NOPS++] = (op_t){OP_CLEAR, 0, 0, "qhasharr_clear"};
    for (int j = 1; j <= M && j <= 4; j++) OPS[NOPS++] = (op_t){OP_WALKRM, j, 0, "qhasharr_getnext"};
}
static void initial_image(unsigned char *img) {
    unsigned char *blk = malloc(REGSZ); memset(blk, 0xEE, REGSZ);
    qhasharr_t *t = qhasharr(blk, REGSZ);
    if (!t) { vc_viol("image:ctor", "qhasharr(mem, %zu) returned NULL", REGSZ); memset(img, 0, REGSZ); free(blk); return; }
    t->free(t); memcpy(img, blk, REGSZ); free(blk);
}
static int MAXDEPTH;
static int search(void) {
    bfs_t b; bfs_init(&b);
    img_cap = REGSZ * 1024; IMG = __real_malloc(img_cap); MOD = __real_malloc(sizeof(model_t) * (img_cap / REGSZ + 1));
    unsigned char *img0 = malloc(REGSZ), *nimg = malloc(REGSZ), *cur = malloc(REGSZ); static char ckey[4096], key[VC_KEYMAX]; static uint16_t hist[512];
    initial_image(img0); model_t m0; memset(&m0, -1, sizeof m0);
    canon(img0, ckey); bfs_visit(&b, ckey); bfs_push(&b, -1, 0, 0); img_store(0, img0, &m0);
    int complete = 1;
    while (b.head < b.nnodes) {
        long idx = b.head++; int d = bfs_history(&b, idx, hist);
        if (MAXDEPTH > 0 && d >= MAXDEPTH) continue;     /* depth-bounded run: every history of <= MAXDEPTH operations */
        if ((idx & 0xff) == 0 && vc_deadline_hit()) { complete = 0; break; }
        if (VC_ENOUGH_VIOLATIONS()) { complete = 0; break; }   /* enough counterexamples: do not explore the damaged state space to its end */
        memcpy(cur, IMG + idx * REGSZ, REGSZ); model_t mc = MOD[idx];
        char *k = key; k += sprintf(k, "hasharr:%d:", M); for (int i = 0; i < d; i++) k += sprintf(k, "%d,", hist[i]);
        for (int op = 0; op < NOPS; op++) {
            sprintf(k, "%d", op);
            if (!vc_case(OPS[op].label, key)) continue;
            long v0 = vc_nviol - n_soft; model_t m1;
            transition(cur, &mc, op, ckey, nimg, &m1);
            if (vc_nviol - n_soft == v0 && bfs_visit(&b, ckey)) { long ni = bfs_push(&b, idx, op, d + 1); img_store(ni, nimg, &m1); if (b.nnodes <= 3 || (b.nnodes % 20000) == 0) vc_sample("history %s -> image %s", key, ckey); }
            vc_case_end();
        }
    }
    vc_stat_add("states", b.nkeys); vc_stat_add("transitions", n_trans); vc_stat_add("max_depth", b.max_depth);
    vc_stat_add("wellformed_checks", n_wf); vc_stat_add("residue_differentials", n_diff); vc_stat_add("address_differentials", n_reloc_runs); vc_stat_add("copies_verified", n_copies); vc_stat_add("inputs_scribbled", n_scribbled);
    vc_stat_add("slots_free_seen", kinds_seen[0]); vc_stat_add("slots_leading_seen", kinds_seen[1]); vc_stat_add("slots_collision_seen", kinds_seen[2]); vc_stat_add("slots_extension_seen", kinds_seen[3]);
    vc_stat_add("relocations", n_reloc); vc_stat_add("promotions", n_promote); vc_stat_add("walks_with_removal", n_walkrm);
    if (!complete) vc_exhaustive = 0;
    free(img0); free(nimg); free(cur); bfs_free(&b);
    return 0;
}
/* replay: re-execute the history from the initial image with all checks on */
static int replay(const char *key) {
    int off; if (sscanf(key, "hasharr:%d:%n", &M, &off) < 1) return 1;
    setup();
    unsigned char *img = malloc(REGSZ), *nimg = malloc(REGSZ); static char ckey[4096];
    initial_image(img); model_t m; memset(&m, -1, sizeof m);
    vc_case("replay", key); vc_viol_print_per_class = 5;
    const char *p = key + off;
    while (*p) { int op = atoi(p); model_t m1; transition(img, &m, op, ckey, nimg, &m1); memcpy(img, nimg, REGSZ); m = m1; printf("NOTE\top %d -> %s\n", op, ckey); p = strchr(p, ','); if (!p) break; p++; }
    return 0;
}
/* single cases: a 65535-byte key (the documented maximum) */
static void bigkey(void) {
    M = 4; setup();
    if (!vc_case("qhasharr_put_by_obj", "hasharr-bigkey")) return;
    size_t kn = 65535; char *k1 = malloc(kn), *k2 = malloc(kn);
    memset(k1, 'a', kn); memset(k2, 'a', kn); k2[kn - 1] = 'b';      /* same length, same prefix, differ in the last byte */
    unsigned char *blk = malloc(REGSZ); qhasharr_t *t = qhasharr(blk, REGSZ);
    if (!t->put_by_obj(t, k1, kn, "v1", 3) || !t->put_by_obj(t, k2, kn, "v22", 4)) vc_viol("image:bigkey", "put with a 65535-byte key failed");
    size_t sz = 0; char *d = t->get_by_obj(t, k1, kn, &sz); if (!d || sz != 3 || memcmp(d, "v1", 3)) vc_viol("image:bigkey", "first 65535-byte key not found / wrong value"); free(d);
    d = t->get_by_obj(t, k2, kn, &sz); if (!d || sz != 4 || memcmp(d, "v22", 4)) vc_viol("image:bigkey", "second 65535-byte key not found / wrong value"); free(d);
    if (t->size(t, NULL, NULL) != 2) vc_viol("image:bigkey", "two distinct 65535-byte keys counted as %d", t->size(t, NULL, NULL));
    if (!t->remove_by_obj(t, k1, kn) || t->get_by_obj(t, k1, kn, NULL) != NULL) vc_viol("image:bigkey", "remove of a 65535-byte key failed");
    d = t->get_by_obj(t, k2, kn, &sz); if (!d) vc_viol("image:bigkey", "removing one long key removed the other"); free(d);
    /* beyond the 16-bit length field of a slot: the key can only be refused (nothing stored), never stored under a truncated length */
    for (size_t big = 65536; big <= 65538; big++) {
        char *kb = malloc(big); memset(kb, 'c', big); kb[0] = 'a'; kb[1] = 'b'; int n0 = t->size(t, NULL, NULL);
        errno = 0; bool r = t->put_by_obj(t, kb, big, "LONG", 5); int e = errno; size_t gs = 0; char *g = t->get_by_obj(t, kb, big, &gs);
        if (r && (!g || gs != 5)) vc_viol("image:bigkey", "put_by_obj with a %zu-byte key returned true but the key is not found afterwards", big);
        if (!r && (e != EINVAL || t->size(t, NULL, NULL) != n0)) vc_viol("image:bigkey", "put_by_obj with a %zu-byte key refused with errno %d, size %d -> %d", big, e, n0, t->size(t, NULL, NULL));
        free(g);
        g = t->get_by_obj(t, "ab", 2, NULL); if (g) vc_viol("image:get-absent", "after the put of a %zu-byte key the never stored key \"ab\" is found", big); free(g);
        if (r) t->remove_by_obj(t, kb, big);
        free(kb);
    }
    { char *ks = malloc(65536); memset(ks, 's', 65535); ks[65535] = 0; int n0 = t->size(t, NULL, NULL);   /* a C string of 65535 characters is 65536 bytes with its terminator */
      bool r = t->putstr(t, ks, "v"); char *g = t->getstr(t, ks);
      if (r && !g) vc_viol("image:bigkey", "putstr with a 65535-character key returned true but the key is not found afterwards");
      if (!r && t->size(t, NULL, NULL) != n0) vc_viol("image:bigkey", "refused putstr with a 65535-character key changed the size");
      free(g); if (r) t->remove(t, ks); free(ks); }
    t->free(t); free(blk); free(k1); free(k2);
    if (vc_asan_check()) vc_viol("asan:bigkey", "sanitizer report with 65535-byte keys");
    vc_stat_add("transitions", 6); vc_stat_add("states", 3);
    vc_sample("two 65535-byte keys differing in the last byte: put, get, size, remove");
    vc_case_end();
}
/* constructor family: every region size 1..MAXSZ, in a heap block of exactly that size. The documentation promises a table
 * whenever the region has room for the header and at least one slot (qhasharr_calculate_memsize(1)), and EINVAL below */
static void ctor_family(int maxsz) {
    size_t hdr = qhasharr_calculate_memsize(0), slot = qhasharr_calculate_memsize(1) - hdr;
    for (int sz = 1; sz <= maxsz; sz++) {
        char key[64]; snprintf(key, sizeof key, "hasharr-ctor:%d", sz);
        if (!vc_case("qhasharr", key)) continue;
        int want = (size_t)sz >= hdr + slot ? (int)((sz - hdr) / slot) : 0;
        unsigned char *blk = malloc(sz); memset(blk, 0xEE, sz);
        errno = 0; qhasharr_t *t = qhasharr(blk, sz); int e = errno;
        if (want == 0) {
            if (t) vc_viol("image:ctor", "qhasharr(mem, %d) returned a table although not even one slot fits", sz);
            else if (e != EINVAL) vc_viol("image:ctor", "qhasharr(mem, %d) refused with errno %d, EINVAL is documented", sz, e);
            for (int i = 0; i < sz && !t; i++) if (blk[i] != 0xEE) { vc_viol("image:ctor", "refused qhasharr(mem, %d) wrote into the region", sz); break; }
        } else if (!t) vc_viol("image:ctor", "qhasharr(mem, %d) returned NULL (errno %d) although %d slot(s) fit", sz, e, want);
        else {
            int mx = -1, us = -1, n = t->size(t, &mx, &us);
            if (n != 0 || mx != want || us != 0) vc_viol("image:ctor", "qhasharr(mem, %d): size triple (%d,%d,%d), expected (0,%d,0)", sz, n, mx, us, want);
            int ok = 0; char kb[16];
            for (int i = 0; i < want + 1; i++) { snprintf(kb, sizeof kb, "c%d", i); if (t->put(t, kb, "v", 1)) ok++; else if (errno != ENOBUFS) vc_viol("space:errno", "full table refused a put with errno %d", errno); }
            if (ok != want) vc_viol("space:ctor-capacity", "qhasharr(mem, %d): %d one-slot puts succeeded, %d slots", sz, ok, want);
            for (int i = 0; i < ok; i++) { snprintf(kb, sizeof kb, "c%d", i); size_t n2 = 0; char *d = t->get(t, kb, &n2); if (!d || n2 != 1 || d[0] != 'v') vc_viol("image:get-value", "qhasharr(mem, %d): key %s not read back", sz, kb); free(d); }
        }
        if (t) t->free(t);
        free(blk);
        const char *a = vc_asan_check(); if (a) { char cls[96]; snprintf(cls, sizeof cls, "asan:%s:qhasharr", a); vc_viol(cls, "sanitizer report in qhasharr(mem, %d)", sz); }
        vc_stat_add("transitions", 1); vc_stat_add("ctor_sizes", 1);
        vc_case_end();
    }
    vc_sample("qhasharr(mem, n) for every n in 1..%d: NULL/EINVAL below %zu bytes, else (n-%zu)/%zu slots, filled to capacity and read back", maxsz, hdr + slot, hdr, slot);
}
/* one collision chain of every length 1..L: all keys share home slot 0 of a table with more than L slots. The keys are
 * 4-byte strings computed by inverting MurmurHash3 x86_32 for the hash values 0, M, 2M, ... (checked against the
 * independent forward implementation). The per-bucket collision counter of the image is 16 bits wide. */
static uint32_t inv32(uint32_t a) { uint32_t x = a; for (int i = 0; i < 5; i++) x *= 2 - a * x; return x; }   /* inverse of an odd number mod 2^32 */
static uint32_t rh_ror32(uint32_t x, int r) { return (x >> r) | (x << (32 - r)); }
static uint32_t mm32_invert4(uint32_t h) {      /* the 4-byte key (little endian) whose MurmurHash3_x86_32 is h */
    h ^= h >> 16; h *= inv32(0xc2b2ae35u); h ^= h >> 13; h ^= h >> 26; h *= inv32(0x85ebca6bu); h ^= h >> 16;
    h ^= 4; h = (h - 0xe6546b64u) * inv32(5); h = rh_ror32(h, 13);
    uint32_t k = h; k *= inv32(0x1b873593u); k = rh_ror32(k, 15); k *= inv32(0xcc9e2d51u); return k;
}
static void chain_family(int L) {
    M = L + 5; REGSZ = qhasharr_calculate_memsize(M);
    unsigned char *blk = malloc(REGSZ); qhasharr_t *t = qhasharr(blk, REGSZ);
    uint32_t *keys = malloc(sizeof(uint32_t) * (L + 1));
    for (int j = 0; j <= L; j++) { keys[j] = mm32_invert4((uint32_t)j * (uint32_t)M); if (ref_mm32(&keys[j], 4) % (uint32_t)M != 0) { printf("NOTE\tkey inversion failed\n"); vc_stat_add("replay_divergence", 1); return; } }
    int stored = 0, step = 512, bad = 0, n_limit = 0;
    for (int lo = 1; lo <= L && !bad && !n_limit; lo += step) {
        int hi = lo + step - 1 > L ? L : lo + step - 1;
        char key[64]; snprintf(key, sizeof key, "hasharr-chain:%d:%d", lo, hi);
        if (!vc_case("qhasharr_put_by_obj", key)) { bad = 1; break; }     /* a crash inside an earlier block: the table state is gone */
        for (int n = lo; n <= hi; n++) {
            errno = 0; bool r = t->put_by_obj(t, &keys[n - 1], 4, "v", 1); int e = errno;
            if (!r) {
                /* n-1 of M slots are used: by the property this put must succeed */
                if (e == ENOBUFS) vc_viol("space:chain-limit", "put of the %dth key with the same home slot refused with ENOBUFS although %d of %d slots are free", n, M - stored, M);
                else vc_viol("space:put-decision", "put of the %dth colliding key failed with errno %d", n, e);
                /* a refused put alters nothing: all keys still there, counters unchanged; and after one removal the same put succeeds */
                int lost = 0; for (int j = 0; j < stored; j++) { char *d = t->get_by_obj(t, &keys[j], 4, NULL); if (!d) lost++; free(d); }
                int mx, us, num = t->size(t, &mx, &us);
                if (lost || num != stored || us != stored) vc_viol("space:failed-put-altered", "the refused put of key %d altered the table: %d keys lost, size triple (%d,%d,%d)", n, lost, num, mx, us);
                if (!t->remove_by_obj(t, &keys[stored / 2], 4) || !t->put_by_obj(t, &keys[n - 1], 4, "v", 1) || t->put_by_obj(t, &keys[stored / 2], 4, "v", 1)) vc_viol("space:put-decision", "after removing one key of the full chain the refused key cannot be stored (or the chain limit is not enforced again)");
                keys[stored / 2] = keys[n - 1]; n_limit = 1;
                break;
            }
            stored = n;
            size_t sz = 0; char *d = t->get_by_obj(t, &keys[n - 1], 4, &sz);
            if (!d || sz != 1 || d[0] != 'v') { vc_viol("image:get-missing", "chain of %d keys: the key just stored is not found", n); bad = 1; }
            free(d);
            d = t->get_by_obj(t, &keys[0], 4, &sz); if (!d) { vc_viol("image:get-missing", "chain of %d keys: the first key is no longer found", n); bad = 1; } free(d);
            int mx, us, num = t->size(t, &mx, &us);
            if (num != n || us != n || mx != M) { vc_viol("space:accounting", "chain of %d keys: size triple (%d,%d,%d)", n, num, mx, us); bad = 1; }
            if (bad) break;
            n_trans++;
        }
        /* every key of the chain, at the block boundaries and around the 15/16-bit limits of the counter */
        if (!bad && (hi == L || hi % 8192 == 0 || (hi >= 32767 - step && hi <= 32768 + step))) {
            int lost = 0; for (int j = 0; j < stored; j++) { char *d = t->get_by_obj(t, &keys[j], 4, NULL); if (!d) lost++; free(d); }
            if (lost) { vc_viol("image:get-missing", "chain of %d keys with one home slot: %d of them are not found any more (size() still %d)", stored, lost, t->size(t, NULL, NULL)); bad = 1; }
            n_wf++;
        }
        if (vc_asan_check()) { vc_viol("asan:chain", "sanitizer report with a chain of %d keys", stored); bad = 1; }
        vc_case_end();
        if (vc_deadline_hit()) { vc_exhaustive = 0; break; }
    }
    if (!bad && stored >= 1) {   /* take the chain down again from the head: every removal promotes a collision key */
        if (vc_case("qhasharr_remove_by_obj", "hasharr-chain:remove")) {
            for (int j = 0; j < stored && j < 40000; j += (j < 64 || j > stored - 64) ? 1 : 997) { if (!t->remove_by_obj(t, &keys[j], 4)) { vc_viol("image:remove-result", "chain of %d keys: remove of key %d failed", stored, j); break; } n_trans++; }
            vc_case_end();
        }
    }
    vc_stat_add("transitions", n_trans); vc_stat_add("states", stored); vc_stat_add("chain_length_reached", stored); vc_stat_add("wellformed_checks", n_wf);
    vc_sample("%d distinct 4-byte keys with home slot 0 in a table of %d slots: put, get of newest and oldest, size after every put; all keys at 32767/32768", stored, M);
    t->free(t); free(blk); free(keys);
}
static int worker(int argc, char **argv) {
    if (vc_replay_key) { if (!strcmp(vc_replay_key, "hasharr-bigkey")) { bigkey(); return 0; } if (!strncmp(vc_replay_key, "hasharr-chain:", 14)) { vc_replay_key = NULL; vc_viol_print_per_class = 5; vc_hang_ticks = 1200; chain_family(33000); return 0; } if (!strncmp(vc_replay_key, "hasharr-ctor:", 13)) { vc_viol_print_per_class = 5; ctor_family(4096); return 0; } return replay(vc_replay_key); }
    if (argc < 2) return 1;
    if (!strcmp(argv[1], "bigkey")) { bigkey(); return 0; }
    if (!strcmp(argv[1], "ctor")) { ctor_family(atoi(argv[2])); return 0; }
    if (!strcmp(argv[1], "chain")) { vc_hang_ticks = 120; chain_family(atoi(argv[2])); return 0; }
    M = atoi(argv[1]); MAXDEPTH = argc > 2 ? atoi(argv[2]) : 0; setup();
    char ks[256], *p = ks; for (int k = 0; k < NK; k++) p += sprintf(p, "%s(home %d) ", KEYS[k], HOME[k]);
    printf("NOTE\tM=%d slot=%zu bytes region=%zu keys: %s\n", M, sizeof(qhasharr_slot_t), REGSZ, ks);
    search();
    return 0;
}
int main(int argc, char **argv) { return vc_main(argc, argv, worker); }
