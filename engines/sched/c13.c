/* c13.c - E2: preemption-bounded exploration of every schedule of small multi-threaded client programs on the
 * thread-safe containers (C13).
 *   c13 <container> <shape> <PB> <shard> <nshards>      shape: 11, 21, 22, 111
 * Programs are enumerated (every assignment of alphabet operations to the slots of the shape, from both initial
 * states); for every program a stateless DFS enumerates every schedule with at most PB preemptions; every execution is
 * checked for linearizability by brute force against sequential runs of the same real code, for deadlock/livelock and
 * for a leaked lock. In the tsan flavour every data race reported on the way is a violation.
 */
#include "vc.h"
#include "sched.h"
#include "qlibc.h"
#include "qinternal.h"

typedef struct { char s[120]; } res_t;
typedef void (*opf)(void *c, res_t *r);
typedef struct { const char *label; opf f; } cop_t;
typedef struct { const char *name; void *(*make)(int init); void (*digest)(void *c, char *out); void (*destroy)(void *c); void *(*mutex)(void *c); cop_t *ops; int nops; int ninit; } cont_t;
static void rfmt(res_t *r, const char *fmt, ...) { va_list ap; va_start(ap, fmt); vsnprintf(r->s, sizeof r->s, fmt, ap); va_end(ap); }
static void radd(res_t *r, const char *fmt, ...) { size_t l = strlen(r->s); va_list ap; va_start(ap, fmt); vsnprintf(r->s + l, sizeof r->s - l, fmt, ap); va_end(ap); }

/* ------------------------------------------------------------ qvector (int elements) */
static void *v_make(int init) { qvector_t *v = qvector(init ? 2 : 0, sizeof(int), QVECTOR_THREADSAFE); if (init) { int a = 1, b = 2; v->addlast(v, &a); v->addlast(v, &b); } return v; }
static void v_digest(void *c, char *out) { qvector_t *v = c; char *p = out; p += sprintf(p, "n=%zu:", v->size(v)); size_t n = 0; int *a = v->toarray(v, &n); for (size_t i = 0; i < n; i++) p += sprintf(p, "%d,", a[i]); free(a); }
static void v_destroy(void *c) { ((qvector_t *)c)->free(c); }
static void *v_mutex(void *c) { return ((qvector_t *)c)->qmutex; }
#define V ((qvector_t *)c)
static void v_addlast(void *c, res_t *r) { int x = 9; rfmt(r, "%d", V->addlast(V, &x)); }
static void v_addfirst(void *c, res_t *r) { int x = 8; rfmt(r, "%d", V->addfirst(V, &x)); }
static void v_addat1(void *c, res_t *r) { int x = 7; rfmt(r, "%d", V->addat(V, 1, &x)); }
static void v_removefirst(void *c, res_t *r) { rfmt(r, "%d", V->removefirst(V)); }
static void v_poplast(void *c, res_t *r) { int *p = V->poplast(V); rfmt(r, "%d", p ? *p : -1); free(p); }
static void v_getfirst(void *c, res_t *r) { int *p = V->getfirst(V, true); rfmt(r, "%d", p ? *p : -1); free(p); }
static void v_setlast(void *c, res_t *r) { int x = 6; rfmt(r, "%d", V->setlast(V, &x)); }
static void v_toarray(void *c, res_t *r) { size_t n = 99; int *a = V->toarray(V, &n); rfmt(r, "%s n=%zu:", a ? "arr" : "NULL", n); for (size_t i = 0; a && i < n && i < 8; i++) radd(r, "%d,", a[i]); free(a); }
static void v_clear(void *c, res_t *r) { V->clear(V); rfmt(r, "ok"); }
static void v_reverse(void *c, res_t *r) { V->reverse(V); rfmt(r, "ok"); }
static void v_resize1(void *c, res_t *r) { rfmt(r, "%d", V->resize(V, 1)); }
static void v_lockedwalk(void *c, res_t *r) { V->lock(V); qvector_obj_t o; memset(&o, 0, sizeof o); rfmt(r, "w:"); int n = 0; while (V->getnext(V, &o, false) && n++ < 10) radd(r, "%d,", *(int *)o.data); V->unlock(V); }
static void v_debug(void *c, res_t *r) { FILE *f = fopen("/dev/null", "w"); rfmt(r, "%d", V->debug(V, f)); fclose(f); }
static cop_t V_OPS[] = {{"addlast", v_addlast}, {"addfirst", v_addfirst}, {"addat(1)", v_addat1}, {"removefirst", v_removefirst}, {"poplast", v_poplast}, {"getfirst(newmem)", v_getfirst}, {"setlast", v_setlast}, {"toarray", v_toarray}, {"clear", v_clear}, {"reverse", v_reverse}, {"resize(1)", v_resize1}, {"lock;walk;unlock", v_lockedwalk}, {"debug", v_debug}};

/* ------------------------------------------------------------ qlist */
static void *l_make(int init) { qlist_t *l = qlist(QLIST_THREADSAFE); if (init == 1) { l->addlast(l, "a", 2); l->addlast(l, "b", 2); } if (init == 2) { l->addlast(l, "a", 2); l->setsize(l, 2); } return l; }
static void l_digest(void *c, char *out) { qlist_t *l = c; char *p = out; p += sprintf(p, "n=%zu ds=%zu max=%zu:", l->size(l), l->datasize(l), l->max); char *s = l->tostring(l); p += sprintf(p, "%s", s ? s : "-"); free(s); }
static void l_destroy(void *c) { ((qlist_t *)c)->free(c); }
static void *l_mutex(void *c) { return ((qlist_t *)c)->qmutex; }
#define L ((qlist_t *)c)
static void l_addlast(void *c, res_t *r) { rfmt(r, "%d", L->addlast(L, "x", 2)); }
static void l_addfirst(void *c, res_t *r) { rfmt(r, "%d", L->addfirst(L, "yyy", 4)); }   /* another size than the other elements */
static void l_addat1(void *c, res_t *r) { rfmt(r, "%d", L->addat(L, 1, "z", 2)); }
static void l_popfirst(void *c, res_t *r) { size_t sz = 0; char *p = L->popfirst(L, &sz); rfmt(r, "%s/%zu", p ? p : "NULL", sz); free(p); }
static void l_poplast(void *c, res_t *r) { char *p = L->poplast(L, NULL); rfmt(r, "%s", p ? p : "NULL"); free(p); }
static void l_getfirst(void *c, res_t *r) { size_t sz = 0; char *p = L->getfirst(L, &sz, true); rfmt(r, "%s/%zu", p ? p : "NULL", sz); free(p); }
static void l_removelast(void *c, res_t *r) { rfmt(r, "%d", L->removelast(L)); }
static void l_toarray(void *c, res_t *r) { size_t n = 99; char *a = L->toarray(L, &n); rfmt(r, "%s n=%zu:", a ? "arr" : "NULL", n); for (size_t i = 0; a && i < n && i < 16; i++) radd(r, "%c", a[i] ? a[i] : '.'); free(a); }
static void l_tostring(void *c, res_t *r) { char *s = L->tostring(L); rfmt(r, "%s", s ? s : "NULL"); free(s); }
static void l_clear(void *c, res_t *r) { L->clear(L); rfmt(r, "ok"); }
static void l_reverse(void *c, res_t *r) { L->reverse(L); rfmt(r, "ok"); }
static void l_setsize1(void *c, res_t *r) { rfmt(r, "%zu", L->setsize(L, 1)); }
static void l_lockedwalk(void *c, res_t *r) { L->lock(L); qlist_obj_t o; memset(&o, 0, sizeof o); rfmt(r, "w:"); int n = 0; while (L->getnext(L, &o, false) && n++ < 10) radd(r, "%s,", (char *)o.data); L->unlock(L); }
static void l_debug(void *c, res_t *r) { FILE *f = fopen("/dev/null", "w"); rfmt(r, "%d", L->debug(L, f)); fclose(f); }
static cop_t L_OPS[] = {{"addlast", l_addlast}, {"addfirst", l_addfirst}, {"addat(1)", l_addat1}, {"popfirst", l_popfirst}, {"poplast", l_poplast}, {"getfirst(newmem)", l_getfirst}, {"removelast", l_removelast}, {"toarray", l_toarray}, {"tostring", l_tostring}, {"clear", l_clear}, {"reverse", l_reverse}, {"setsize(1)", l_setsize1}, {"lock;walk;unlock", l_lockedwalk}, {"debug", l_debug}};

/* ------------------------------------------------------------ qqueue / qstack (thin layers over qlist, no lock() of their own) */
static int QS_STACK;
static void *qs_make(int init) { if (QS_STACK) { qstack_t *s = qstack(QSTACK_THREADSAFE); if (init == 1) { s->pushstr(s, "a"); s->pushstr(s, "b"); } if (init == 2) { s->pushstr(s, "a"); s->setsize(s, 2); } return s; } qqueue_t *q = qqueue(QQUEUE_THREADSAFE); if (init == 1) { q->pushstr(q, "a"); q->pushstr(q, "b"); } if (init == 2) { q->pushstr(q, "a"); q->setsize(q, 2); } return q; }
static qlist_t *qs_list(void *c) { return QS_STACK ? ((qstack_t *)c)->list : ((qqueue_t *)c)->list; }
static void qs_digest(void *c, char *out) { l_digest(qs_list(c), out); }
static void qs_destroy(void *c) { if (QS_STACK) ((qstack_t *)c)->free(c); else ((qqueue_t *)c)->free(c); }
static void *qs_mutex(void *c) { return qs_list(c)->qmutex; }
#define QQ ((qqueue_t *)c)
#define SS ((qstack_t *)c)
static void qs_push(void *c, res_t *r) { rfmt(r, "%d", QS_STACK ? SS->pushstr(SS, "x") : QQ->pushstr(QQ, "x")); }
static void qs_push2(void *c, res_t *r) { rfmt(r, "%d", QS_STACK ? SS->pushstr(SS, "y") : QQ->pushstr(QQ, "y")); }
static void qs_pop(void *c, res_t *r) { char *p = QS_STACK ? SS->popstr(SS) : QQ->popstr(QQ); rfmt(r, "%s", p ? p : "NULL"); free(p); }
static void qs_get(void *c, res_t *r) { char *p = QS_STACK ? SS->getstr(SS) : QQ->getstr(QQ); rfmt(r, "%s", p ? p : "NULL"); free(p); }
static void qs_popat1(void *c, res_t *r) { char *p = QS_STACK ? SS->popat(SS, 1, NULL) : QQ->popat(QQ, 1, NULL); rfmt(r, "%s", p ? p : "NULL"); free(p); }
static void qs_clear(void *c, res_t *r) { if (QS_STACK) SS->clear(SS); else QQ->clear(QQ); rfmt(r, "ok"); }
static void qs_size(void *c, res_t *r) { (void)c; rfmt(r, "-"); }
static cop_t QS_OPS[] = {{"pushstr(x)", qs_push}, {"pushstr(y)", qs_push2}, {"popstr", qs_pop}, {"getstr", qs_get}, {"popat(1)", qs_popat1}, {"clear", qs_clear}};
/* the integer convenience layer of queue and stack (pushint / popint / getint): elements are 8-byte integers */
static void *qi_make(int init) { if (QS_STACK) { qstack_t *s = qstack(QSTACK_THREADSAFE); if (init == 1) { s->pushint(s, 7); s->pushint(s, 8); } if (init == 2) { s->pushint(s, 7); s->setsize(s, 2); } return s; } qqueue_t *q = qqueue(QQUEUE_THREADSAFE); if (init == 1) { q->pushint(q, 7); q->pushint(q, 8); } if (init == 2) { q->pushint(q, 7); q->setsize(q, 2); } return q; }
static void qi_digest(void *c, char *out) { qlist_t *l = qs_list(c); char *p = out; p += sprintf(p, "n=%zu ds=%zu max=%zu:", l->size(l), l->datasize(l), l->max); qlist_obj_t o; memset(&o, 0, sizeof o); int n = 0; l->lock(l); while (l->getnext(l, &o, false) && n++ < 10) p += sprintf(p, "%lld/%zu,", o.size == 8 ? (long long)*(int64_t *)o.data : -1LL, o.size); l->unlock(l); }
static void qi_push9(void *c, res_t *r) { rfmt(r, "%d", QS_STACK ? SS->pushint(SS, 9) : QQ->pushint(QQ, 9)); }
static void qi_pushneg(void *c, res_t *r) { rfmt(r, "%d", QS_STACK ? SS->pushint(SS, -1234567890123LL) : QQ->pushint(QQ, -1234567890123LL)); }
static void qi_pop(void *c, res_t *r) { rfmt(r, "%lld", (long long)(QS_STACK ? SS->popint(SS) : QQ->popint(QQ))); }
static void qi_get(void *c, res_t *r) { rfmt(r, "%lld", (long long)(QS_STACK ? SS->getint(SS) : QQ->getint(QQ))); }
static void qi_popat1(void *c, res_t *r) { size_t sz = 0; int64_t *p = QS_STACK ? SS->popat(SS, 1, &sz) : QQ->popat(QQ, 1, &sz); rfmt(r, "%lld/%zu", p ? (long long)*p : -1LL, sz); free(p); }
static void qi_getat0(void *c, res_t *r) { size_t sz = 0; int64_t *p = QS_STACK ? SS->getat(SS, 0, &sz, true) : QQ->getat(QQ, 0, &sz, true); rfmt(r, "%lld/%zu", p ? (long long)*p : -1LL, sz); free(p); }
static cop_t QI_OPS[] = {{"pushint(9)", qi_push9}, {"pushint(-1234567890123)", qi_pushneg}, {"popint", qi_pop}, {"getint", qi_get}, {"popat(1)", qi_popat1}, {"getat(0)", qi_getat0}, {"clear", qs_clear}};

/* ------------------------------------------------------------ qtreetbl */
static void *t_make(int init) { qtreetbl_t *t = qtreetbl(QTREETBL_THREADSAFE); if (init) { t->putstr(t, "a", "1"); t->putstr(t, "b", "2"); } return t; }
static void t_digest(void *c, char *out) { qtreetbl_t *t = c; char *p = out; p += sprintf(p, "n=%zu chk=%d:", t->size(t), qtreetbl_check(t)); qtreetbl_obj_t o; memset(&o, 0, sizeof o); int n = 0; t->lock(t); while (t->getnext(t, &o, false) && n++ < 10) p += sprintf(p, "%s=%s,", (char *)o.name, (char *)o.data); t->unlock(t); }
static void t_destroy(void *c) { ((qtreetbl_t *)c)->free(c); }
static void *t_mutex(void *c) { return ((qtreetbl_t *)c)->qmutex; }
#define T_ ((qtreetbl_t *)c)
static void t_puta(void *c, res_t *r) { rfmt(r, "%d", T_->putstr(T_, "a", "AAA")); }   /* another length than the initial value: a copy must come with its own size */
static void t_putb(void *c, res_t *r) { rfmt(r, "%d", T_->putstr(T_, "b", "B")); }
static void t_putc(void *c, res_t *r) { rfmt(r, "%d", T_->putstr(T_, "c", "C")); }
static void t_geta(void *c, res_t *r) { size_t sz = 0; char *p = T_->get(T_, "a", &sz, true); rfmt(r, "%s/%zu", p ? p : "NULL", sz); free(p); }
static void t_getb(void *c, res_t *r) { char *p = T_->getstr(T_, "b", true); rfmt(r, "%s", p ? p : "NULL"); free(p); }
static void t_rema(void *c, res_t *r) { rfmt(r, "%d", T_->remove(T_, "a")); }
static void t_remb(void *c, res_t *r) { rfmt(r, "%d", T_->remove(T_, "b")); }
static void t_clear(void *c, res_t *r) { T_->clear(T_); rfmt(r, "ok"); }
static void t_min(void *c, res_t *r) { char *p = T_->find_min(T_, NULL); rfmt(r, "%s", p ? p : "NULL"); free(p); }
static void t_nearest(void *c, res_t *r) { qtreetbl_obj_t o = T_->find_nearest(T_, "b", 2, true); rfmt(r, "%s=%s", o.name ? (char *)o.name : "NULL", o.data ? (char *)o.data : "-"); free(o.name); free(o.data); }
static void t_lockedwalk(void *c, res_t *r) { T_->lock(T_); qtreetbl_obj_t o; memset(&o, 0, sizeof o); rfmt(r, "w:"); int n = 0; while (T_->getnext(T_, &o, false) && n++ < 10) radd(r, "%s=%s,", (char *)o.name, (char *)o.data); T_->unlock(T_); }
/* a second thread-safe table that only this thread uses: its lock does not order it against the shared table, so any
 * state the implementation shares between tables (file-scope variables) shows up as a data race */
/* the documented "iteration from given point": lock(); find_nearest(); getnext()...; unlock() - a locking method called while the
 * caller holds the table's lock (the lock is recursive) */
static void t_lockednearwalk(void *c, res_t *r) { T_->lock(T_); qtreetbl_obj_t o = T_->find_nearest(T_, "b", 2, false); rfmt(r, "n:"); int n = 0; while (T_->getnext(T_, &o, false) && n++ < 10) radd(r, "%s=%s,", (char *)o.name, (char *)o.data); T_->unlock(T_); }
static void t_debug(void *c, res_t *r) { FILE *f = fopen("/dev/null", "w"); rfmt(r, "%d", T_->debug(T_, f)); fclose(f); }
static void t_max(void *c, res_t *r) { char *p = T_->find_max(T_, NULL); rfmt(r, "%s", p ? p : "NULL"); free(p); }
static void t_owntable(void *c, res_t *r) { (void)c; qtreetbl_t *t = qtreetbl(QTREETBL_THREADSAFE); t->putstr(t, "p", "1"); t->putstr(t, "q", "2"); rfmt(r, "%zu", t->size(t)); t->free(t); }
static cop_t T_OPS[] = {{"put(a)", t_puta}, {"put(b)", t_putb}, {"put(c)", t_putc}, {"get(a,&size,newmem)", t_geta}, {"get(b,newmem)", t_getb}, {"remove(a)", t_rema}, {"remove(b)", t_remb}, {"clear", t_clear}, {"find_min", t_min}, {"find_nearest(b,newmem)", t_nearest}, {"lock;walk;unlock", t_lockedwalk}, {"own-table put(p),put(q)", t_owntable}, {"debug", t_debug}, {"find_max", t_max}, {"lock;find_nearest;walk;unlock", t_lockednearwalk}};

/* ------------------------------------------------------------ qhashtbl (range 1: every key shares one chain) */
static void *h_make(int init) { qhashtbl_t *t = qhashtbl(1, QHASHTBL_THREADSAFE); if (init) { t->putstr(t, "a", "1"); t->putstr(t, "b", "2"); } return t; }
static void h_digest(void *c, char *out) { qhashtbl_t *t = c; char *p = out; p += sprintf(p, "n=%zu:", t->size(t)); const char *ks[] = {"a", "b", "c"}; for (int i = 0; i < 3; i++) { char *s = t->getstr(t, ks[i], true); p += sprintf(p, "%s=%s,", ks[i], s ? s : "-"); free(s); } }
static void h_destroy(void *c) { ((qhashtbl_t *)c)->free(c); }
static void *h_mutex(void *c) { return ((qhashtbl_t *)c)->qmutex; }
#define H ((qhashtbl_t *)c)
static void h_puta(void *c, res_t *r) { rfmt(r, "%d", H->putstr(H, "a", "AAA")); }
static void h_putb(void *c, res_t *r) { rfmt(r, "%d", H->putstr(H, "b", "B")); }
static void h_putc(void *c, res_t *r) { rfmt(r, "%d", H->putint(H, "c", 3)); }
static void h_geta(void *c, res_t *r) { size_t sz = 0; char *p = H->get(H, "a", &sz, true); rfmt(r, "%s/%zu", p ? p : "NULL", sz); free(p); }
static void h_getc(void *c, res_t *r) { rfmt(r, "%lld", (long long)H->getint(H, "c")); }
static void h_rema(void *c, res_t *r) { rfmt(r, "%d", H->remove(H, "a")); }
static void h_remb(void *c, res_t *r) { rfmt(r, "%d", H->remove(H, "b")); }
static void h_clear(void *c, res_t *r) { H->clear(H); rfmt(r, "ok"); }
static void h_lockedwalk(void *c, res_t *r) { H->lock(H); qhashtbl_obj_t o; memset(&o, 0, sizeof o); rfmt(r, "w:"); int n = 0; while (H->getnext(H, &o, false) && n++ < 10) radd(r, "%s=%s,", o.name, (char *)o.data); H->unlock(H); }
static void h_debug(void *c, res_t *r) { FILE *f = fopen("/dev/null", "w"); rfmt(r, "%d", H->debug(H, f)); fclose(f); }
/* documented: a copying scan may run without the table lock (every getnext locks for itself); it is several calls, so its result
 * takes no part in the linearizability check - what counts is that it ends and touches no freed element (ASan) and races with nothing (TSan) */
static void h_unlockedscan(void *c, res_t *r) { qhashtbl_obj_t o; memset(&o, 0, sizeof o); int n = 0; while (H->getnext(H, &o, true) && n++ < 10) { free(o.name); free(o.data); } rfmt(r, "-"); }
static cop_t H_OPS[] = {{"put(a)", h_puta}, {"put(b)", h_putb}, {"putint(c)", h_putc}, {"get(a,&size,newmem)", h_geta}, {"getint(c)", h_getc}, {"remove(a)", h_rema}, {"remove(b)", h_remb}, {"clear", h_clear}, {"lock;walk;unlock", h_lockedwalk}, {"debug", h_debug}, {"copying scan without lock", h_unlockedscan}};

/* ------------------------------------------------------------ qlisttbl (plain and UNIQUE) */
static int LT_UNIQUE;
static void *lt_make(int init) { qlisttbl_t *t = qlisttbl(QLISTTBL_THREADSAFE | (LT_UNIQUE ? QLISTTBL_UNIQUE : 0)); if (init) { t->putstr(t, "a", "1"); t->putstr(t, "b", "2"); } return t; }
static void lt_digest(void *c, char *out) { qlisttbl_t *t = c; char *p = out; p += sprintf(p, "n=%zu:", t->size(t)); qlisttbl_obj_t o; memset(&o, 0, sizeof o); int n = 0; t->lock(t); while (t->getnext(t, &o, NULL, false) && n++ < 12) p += sprintf(p, "%s=%s,", o.name, (char *)o.data); t->unlock(t); }
static void lt_destroy(void *c) { ((qlisttbl_t *)c)->free(c); }
static void *lt_mutex(void *c) { return ((qlisttbl_t *)c)->qmutex; }
#define LT ((qlisttbl_t *)c)
static void lt_puta(void *c, res_t *r) { rfmt(r, "%d", LT->putstr(LT, "a", "AAA")); }
static void lt_putb(void *c, res_t *r) { rfmt(r, "%d", LT->putstr(LT, "b", "B")); }
static void lt_geta(void *c, res_t *r) { size_t sz = 0; char *p = LT->get(LT, "a", &sz, true); rfmt(r, "%s/%zu", p ? p : "NULL", sz); free(p); }
static void lt_multia(void *c, res_t *r) { size_t n = 0; qlisttbl_data_t *d = LT->getmulti(LT, "a", true, &n); rfmt(r, "n=%zu:", n); for (size_t i = 0; d && i < n && i < 6; i++) radd(r, "%s,", (char *)d[i].data); LT->freemulti(d); }
static void lt_rema(void *c, res_t *r) { rfmt(r, "%zu", LT->remove(LT, "a")); }
static void lt_remb(void *c, res_t *r) { rfmt(r, "%zu", LT->remove(LT, "b")); }
static void lt_clear(void *c, res_t *r) { LT->clear(LT); rfmt(r, "ok"); }
static void lt_sort(void *c, res_t *r) { LT->sort(LT); rfmt(r, "ok"); }
static void lt_lockedwalk(void *c, res_t *r) { LT->lock(LT); qlisttbl_obj_t o; memset(&o, 0, sizeof o); rfmt(r, "w:"); int n = 0; while (LT->getnext(LT, &o, NULL, false) && n++ < 12) radd(r, "%s=%s,", o.name, (char *)o.data); LT->unlock(LT); }
static void lt_debug(void *c, res_t *r) { FILE *f = fopen("/dev/null", "w"); rfmt(r, "%d", LT->debug(LT, f)); fclose(f); }
static cop_t LT_OPS[] = {{"put(a)", lt_puta}, {"put(b)", lt_putb}, {"get(a,&size,newmem)", lt_geta}, {"getmulti(a,newmem)", lt_multia}, {"remove(a)", lt_rema}, {"remove(b)", lt_remb}, {"clear", lt_clear}, {"sort", lt_sort}, {"lock;walk;unlock", lt_lockedwalk}, {"debug", lt_debug}};

#define NOPS_OF(a) ((int)(sizeof a / sizeof a[0]))
static cont_t CONT;
static int set_container(const char *name) {
    if (!strcmp(name, "qvector")) CONT = (cont_t){"qvector", v_make, v_digest, v_destroy, v_mutex, V_OPS, NOPS_OF(V_OPS)};
    else if (!strcmp(name, "qlist")) CONT = (cont_t){"qlist", l_make, l_digest, l_destroy, l_mutex, L_OPS, NOPS_OF(L_OPS)};
    else if (!strcmp(name, "qqueue")) { QS_STACK = 0; CONT = (cont_t){"qqueue", qs_make, qs_digest, qs_destroy, qs_mutex, QS_OPS, NOPS_OF(QS_OPS)}; }
    else if (!strcmp(name, "qstack")) { QS_STACK = 1; CONT = (cont_t){"qstack", qs_make, qs_digest, qs_destroy, qs_mutex, QS_OPS, NOPS_OF(QS_OPS)}; }
    else if (!strcmp(name, "qqueue-int")) { QS_STACK = 0; CONT = (cont_t){"qqueue-int", qi_make, qi_digest, qs_destroy, qs_mutex, QI_OPS, NOPS_OF(QI_OPS)}; }
    else if (!strcmp(name, "qstack-int")) { QS_STACK = 1; CONT = (cont_t){"qstack-int", qi_make, qi_digest, qs_destroy, qs_mutex, QI_OPS, NOPS_OF(QI_OPS)}; }
    else if (!strcmp(name, "qtreetbl")) CONT = (cont_t){"qtreetbl", t_make, t_digest, t_destroy, t_mutex, T_OPS, NOPS_OF(T_OPS)};
    else if (!strcmp(name, "qhashtbl")) CONT = (cont_t){"qhashtbl", h_make, h_digest, h_destroy, h_mutex, H_OPS, NOPS_OF(H_OPS)};
    else if (!strcmp(name, "qlisttbl")) { LT_UNIQUE = 0; CONT = (cont_t){"qlisttbl", lt_make, lt_digest, lt_destroy, lt_mutex, LT_OPS, NOPS_OF(LT_OPS)}; }
    else if (!strcmp(name, "qlisttbl-unique")) { LT_UNIQUE = 1; CONT = (cont_t){"qlisttbl-unique", lt_make, lt_digest, lt_destroy, lt_mutex, LT_OPS, NOPS_OF(LT_OPS)}; }
    else return -1;
    (void)qs_size;
    CONT.ninit = (!strcmp(name, "qlist") || !strncmp(name, "qqueue", 6) || !strncmp(name, "qstack", 6)) ? 3 : 2;   /* third initial state: one element, size limit 2 */
    return 0;
}

/* ------------------------------------------------------------ programs and executions */
#define MAXOPS 6
typedef struct { int nt; int nop[SC_MAXT]; int op[SC_MAXT][3]; int init; } prog_t;
typedef struct { int thread, idx, inv, resp; res_t res; } call_t;
static prog_t P; static void *CUR; static call_t CALLS[MAXOPS]; static int callbase[SC_MAXT];
static void body(int tid) {
    for (int i = 0; i < P.nop[tid]; i++) {
        call_t *c = &CALLS[callbase[tid] + i];
        c->inv = sc_clock();
        CONT.ops[P.op[tid][i]].f(CUR, &c->res);
        c->resp = sc_clock();
    }
}
/* sequential references: every merge order of the program's calls that respects program order */
typedef struct { int order[MAXOPS]; res_t res[MAXOPS]; char final[256]; } seqref_t;
static seqref_t SEQ[64]; static int nseq; static int NCALLS;
static void gen_seq(int *pos, int *order, int depth) {
    if (depth == NCALLS) {
        seqref_t *s = &SEQ[nseq++]; memcpy(s->order, order, sizeof(int) * NCALLS);
        void *c = CONT.make(P.init);
        for (int i = 0; i < NCALLS; i++) { int ci = order[i]; CONT.ops[P.op[CALLS[ci].thread][CALLS[ci].idx]].f(c, &s->res[ci]); }
        CONT.digest(c, s->final); CONT.destroy(c);
        return;
    }
    for (int t = 0; t < P.nt; t++) if (pos[t] < P.nop[t]) { order[depth] = callbase[t] + pos[t]; pos[t]++; gen_seq(pos, order, depth + 1); pos[t]--; }
}
static int linearizable(const char *final) {
    for (int s = 0; s < nseq; s++) {
        if (strcmp(SEQ[s].final, final)) continue;
        int ok = 1;
        for (int i = 0; i < NCALLS && ok; i++) if (strcmp(SEQ[s].res[i].s, CALLS[i].res.s)) ok = 0;
        /* real-time order: if B responded before A was invoked, B must come before A */
        for (int i = 0; i < NCALLS && ok; i++) for (int j = i + 1; j < NCALLS && ok; j++) { int a = SEQ[s].order[i], b = SEQ[s].order[j]; if (CALLS[b].resp < CALLS[a].inv) ok = 0; }
        if (ok) return 1;
    }
    return 0;
}
static long n_exec, n_programs, n_maxsched, n_deadlocks, n_nonlin, n_preempt_hist[8], n_multi_outcome_programs;
static volatile int tsan_reports;
#ifdef VC_TSAN
void __tsan_on_report(void *rep) { (void)rep; tsan_reports++; }
#endif
static char PKEY[256];
static void sched_key(char *out, size_t n) { char *p = out; p += snprintf(p, n, "%s:", PKEY); for (int i = 0; i < sc_np && (size_t)(p - out) < n - 4; i++) p += sprintf(p, "%d", sc_choice[i]); }
static void describe(char *out, size_t n) {
    char *p = out; for (int i = 0; i < NCALLS && (size_t)(p - out) < n - 80; i++) p += snprintf(p, 80, "T%d.%s[%d..%d]=%s; ", CALLS[i].thread, CONT.ops[P.op[CALLS[i].thread][CALLS[i].idx]].label, CALLS[i].inv, CALLS[i].resp, CALLS[i].res.s);
}
/* run one execution with sc_prefix; returns 0 */
static uint64_t outcomes[256]; static int noutcomes;
static int run_one(int PB) {
    char key[VC_KEYMAX];
    /* announce with the prefix (the suffix is the default continuation) */
    { char *p = key; p += sprintf(p, "%s:", PKEY); for (int i = 0; i < sc_nprefix; i++) p += sprintf(p, "%d", sc_prefix[i]); }
    if (!vc_case(CONT.name, key)) { sc_np = 0; return 0; }
    n_exec++;
    CUR = CONT.make(P.init);
    int t0 = tsan_reports;
    sc_run(P.nt, body);
    char desc[900], cls[160];
    sched_key(key, sizeof key); snprintf(vc_sh->key, VC_KEYMAX, "%s", key);
    int np = 0; for (int i = 0; i < sc_np; i++) if (sc_choice[i] != 0 && sc_cur_en[i]) np++;
    n_preempt_hist[np < 7 ? np : 7]++;
    if (sc_diverged) { vc_stat_add("replay_divergence", 1); printf("NOTE\tschedule replay diverged on %s\n", key); }
    if (sc_deadlock || sc_livelock || sc_overflow) {
        n_deadlocks++;
        snprintf(cls, sizeof cls, "conc:%s:%s", sc_deadlock ? "deadlock" : sc_livelock ? "livelock" : "too-many-steps", CONT.name);
        describe(desc, sizeof desc);
        vc_viol(cls, "init %d, %d preemptions: no thread can run any more; completed calls: %s", P.init, np, desc);
        vc_case_end(); return 0;   /* container and parked threads are abandoned */
    }
    if (sc_foreign_unlock) { snprintf(cls, sizeof cls, "conc:forced-unlock-took-the-lock:%s", CONT.name); describe(desc, sizeof desc); vc_viol(cls, "init %d: a thread whose wait timed out unlocked the mutex another thread was holding: %s", P.init, desc); }
    void *qm = CONT.mutex(CUR);
    if (qm && sc_lock_depth(&((qmutex_t *)qm)->mutex) != 0) {
        snprintf(cls, sizeof cls, "conc:lock-left-held:%s", CONT.name); describe(desc, sizeof desc);
        vc_viol(cls, "init %d: all threads finished but the container lock is still held; calls: %s", P.init, desc);
        vc_case_end(); return 0;
    }
    char final[256]; CONT.digest(CUR, final);
    if (!linearizable(final)) {
        n_nonlin++; describe(desc, sizeof desc);
        snprintf(cls, sizeof cls, "conc:not-linearizable:%s", CONT.name);
        vc_viol(cls, "init %d, %d preemptions: no sequential order explains results and final contents [%s]: %s", P.init, np, final, desc);
    }
    if (tsan_reports != t0) { snprintf(cls, sizeof cls, "conc:data-race:%s", CONT.name); describe(desc, sizeof desc); vc_viol(cls, "init %d: thread sanitizer reported a data race during %s", P.init, desc); }
#ifdef VC_ASAN
    { const char *a = vc_asan_check(); if (a) { snprintf(cls, sizeof cls, "asan:%s:%s", a, CONT.name); vc_viol(cls, "sanitizer report during concurrent execution"); } }
#endif
    /* distinct outcomes of this program */
    { uint64_t h = vc_hash(final, strlen(final)); for (int i = 0; i < NCALLS; i++) h = h * 31 + vc_hash(CALLS[i].res.s, strlen(CALLS[i].res.s)); int f = 0; for (int i = 0; i < noutcomes; i++) f |= outcomes[i] == h; if (!f && noutcomes < 256) outcomes[noutcomes++] = h; }
    CONT.destroy(CUR);
    vc_case_end();
    (void)PB;
    return 0;
}
#define STUCK_ENOUGH() (n_deadlocks >= 20)
static long sched_this_program;
static void explore(int *prefix, int nprefix, int PB) {
    memcpy(sc_prefix, prefix, sizeof(int) * nprefix); sc_nprefix = nprefix;
    run_one(PB);
    sched_this_program++;
    int np = sc_np; static int depthguard;
    if (np == 0) return;
    int *choice = malloc(sizeof(int) * np), *nen = malloc(sizeof(int) * np), *curen = malloc(sizeof(int) * np);
    memcpy(choice, sc_choice, sizeof(int) * np); memcpy(nen, sc_nen, sizeof(int) * np); memcpy(curen, sc_cur_en, sizeof(int) * np);
    int cost = 0;
    for (int i = 0; i < nprefix && i < np; i++) if (choice[i] != 0 && curen[i]) cost++;
    depthguard++;
    for (int i = nprefix; i < np; i++) {
        int c = cost + (curen[i] ? 1 : 0);      /* switching away from a runnable running thread is a preemption */
        if (c <= PB) for (int alt = 1; alt < nen[i]; alt++) {
            int *np2 = malloc(sizeof(int) * (i + 1)); memcpy(np2, choice, sizeof(int) * i); np2[i] = alt;
            explore(np2, i + 1, PB); free(np2);
            if (vc_deadline_hit() || STUCK_ENOUGH()) break;
        }
        /* choice[i] is 0 on the default continuation, so cost is unchanged */
    }
    depthguard--;
    free(choice); free(nen); free(curen);
}
static void run_program(int PB) {
    NCALLS = 0; for (int t = 0; t < P.nt; t++) { callbase[t] = NCALLS; for (int i = 0; i < P.nop[t]; i++) { CALLS[NCALLS].thread = t; CALLS[NCALLS].idx = i; NCALLS++; } }
    char *p = PKEY; p += sprintf(p, "c13:%s:%d:", CONT.name, P.init);
    for (int t = 0; t < P.nt; t++) { for (int i = 0; i < P.nop[t]; i++) p += sprintf(p, "%s%d", i ? "," : "", P.op[t][i]); if (t + 1 < P.nt) *p++ = '/'; } *p = 0;
    nseq = 0; int pos[SC_MAXT] = {0}, order[MAXOPS]; gen_seq(pos, order, 0);
    noutcomes = 0; sched_this_program = 0;
    explore(NULL, 0, PB);
    n_programs++;
    if (sched_this_program > n_maxsched) n_maxsched = sched_this_program;
    if (noutcomes > 1) n_multi_outcome_programs++;
    if (n_programs <= 2 || (n_programs % 400) == 0) vc_sample("program %s (%d sequential orders) -> %ld schedules with <= %d preemptions, %d distinct outcomes", PKEY, nseq, sched_this_program, PB, noutcomes);
}
static void enumerate(int shape, int PB, long shard, long nshards) {
    int nt = shape == 111 ? 3 : 2, n0 = shape == 11 ? 1 : shape == 111 ? 1 : 2, n1 = shape == 22 ? 2 : 1, n2 = 1;
    int slots = shape == 111 ? 3 : n0 + n1; long tot = 1; for (int i = 0; i < slots; i++) tot *= CONT.nops;
    long idx = 0;
    for (int init = 0; init < CONT.ninit; init++) for (long x = 0; x < tot; x++) {
        if (idx++ % nshards != shard) continue;
        if (vc_deadline_hit()) return;
        if (STUCK_ENOUGH()) { vc_exhaustive = 0; return; }   /* every stuck execution costs a pool of parked threads: enough counterexamples */
        long y = x; memset(&P, 0, sizeof P); P.nt = nt; P.init = init; P.nop[0] = n0; P.nop[1] = n1; if (nt == 3) P.nop[2] = n2;
        for (int t = 0; t < nt; t++) for (int i = 0; i < P.nop[t]; i++) { P.op[t][i] = y % CONT.nops; y /= CONT.nops; }
        run_program(PB);
    }
}
static int replay(const char *key) {
    char name[40]; int init, off; if (sscanf(key, "c13:%39[^:]:%d:%n", name, &init, &off) < 2) return 1;
    if (set_container(name)) return 1;
    memset(&P, 0, sizeof P); P.init = init; const char *p = key + off; int t = 0;
    while (*p && *p != ':') { if (*p == '/') { t++; p++; continue; } if (*p == ',') { p++; continue; } P.op[t][P.nop[t]++] = atoi(p); while (*p >= '0' && *p <= '9') p++; }
    P.nt = t + 1;
    int prefix[SC_MAXP], n = 0; if (*p == ':') for (p++; *p; p++) prefix[n++] = *p - '0';
    NCALLS = 0; for (int q = 0; q < P.nt; q++) { callbase[q] = NCALLS; for (int i = 0; i < P.nop[q]; i++) { CALLS[NCALLS].thread = q; CALLS[NCALLS].idx = i; NCALLS++; } }
    char *k = PKEY; k += sprintf(k, "c13:%s:%d:", CONT.name, P.init);
    for (int q = 0; q < P.nt; q++) { for (int i = 0; i < P.nop[q]; i++) k += sprintf(k, "%s%d", i ? "," : "", P.op[q][i]); if (q + 1 < P.nt) *k++ = '/'; } *k = 0;
    nseq = 0; int pos[SC_MAXT] = {0}, order[MAXOPS]; gen_seq(pos, order, 0);
    /* replay the recorded schedule twice: the observations must be identical */
    char d1[900], d2[900];
    memcpy(sc_prefix, prefix, sizeof(int) * n); sc_nprefix = n; run_one(9); describe(d1, sizeof d1);
    memcpy(sc_prefix, prefix, sizeof(int) * n); sc_nprefix = n; run_one(9); describe(d2, sizeof d2);
    printf("NOTE\treplayed schedule: %s\n", d1);
    for (int s = 0; s < nseq; s++) { printf("NOTE\tsequential order "); for (int i = 0; i < NCALLS; i++) printf("T%d.%s=%s ", CALLS[SEQ[s].order[i]].thread, CONT.ops[P.op[CALLS[SEQ[s].order[i]].thread][CALLS[SEQ[s].order[i]].idx]].label, SEQ[s].res[SEQ[s].order[i]].s); printf("-> %s\n", SEQ[s].final); }
    if (strcmp(d1, d2)) printf("NOTE\tREPLAY NOT DETERMINISTIC: %s\n", d2);
    return 0;
}
static int worker(int argc, char **argv) {
    vc_hang_ticks = 20;
    if (argc > 6) sc_to_budget = atoi(argv[6]);     /* time-out deviations per execution (see sched.c) */
    if (vc_replay_key) return replay(vc_replay_key);
    if (argc < 6) return 1;
    if (set_container(argv[1])) return 1;
    int shape = atoi(argv[2]), PB = atoi(argv[3]);
    enumerate(shape, PB, atol(argv[4]), atol(argv[5]));
    vc_stat_add("lock_wait_timeouts_explored", sc_timeouts);
    vc_stat_add("programs", n_programs); vc_stat_add("transitions", n_exec); vc_stat_add("states", n_programs); vc_stat_add("max_schedules_per_program", n_maxsched);
    vc_stat_add("programs_with_several_outcomes", n_multi_outcome_programs); vc_stat_add("stuck_executions", n_deadlocks); vc_stat_add("nonlinearizable", n_nonlin);
    for (int i = 0; i < 8; i++) { char nm[32]; snprintf(nm, sizeof nm, "executions_with_%d_preemptions", i); if (n_preempt_hist[i]) vc_stat_add(nm, n_preempt_hist[i]); }
    vc_stat_add("tsan_reports", tsan_reports);
    return 0;
}
int main(int argc, char **argv) { return vc_main(argc, argv, worker); }
