#ifndef SCHED_H
#define SCHED_H
#define SC_MAXT 4
#define SC_MAXP 512
extern int sc_choice[], sc_nen[], sc_cur_en[], sc_who[], sc_np, sc_prefix[], sc_nprefix;
extern int sc_deadlock, sc_livelock, sc_overflow, sc_diverged;
void sc_run(int nt, void (*body)(int tid));
int sc_clock(void);
void sc_yield(void);
int sc_self(void);
int sc_lock_depth(void *m);
int sc_lock_owner(void *m);
extern long sc_pools_created;
extern int sc_to_budget, sc_foreign_unlock, sc_timeouts;
#endif
