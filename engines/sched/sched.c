/* sched.c - serialising scheduler for E2 (compiled WITHOUT sanitizer instrumentation).
 * Real pthreads, exactly one runs at a time; hand-off by raw futex so that a thread sanitizer sees no
 * happens-before edge from the scheduler itself - only the library's own mutex operations create edges.
 * Scheduling points (injected with -Wl,--wrap): before every outermost pthread_mutex_trylock on a mutex, after every
 * outermost pthread_mutex_unlock, at usleep, at thread start and end. A thread whose trylock would fail is disabled
 * until the mutex is free (the library's spin/usleep wait is modelled as blocking).
 */
#define _GNU_SOURCE
#include <pthread.h>
#include <stdio.h>
#include <stdlib.h>
#include <string.h>
#include <unistd.h>
#include <errno.h>
#include <stdint.h>
#include <sys/syscall.h>
#include <linux/futex.h>
#include "sched.h"

static void fwait(volatile int *a, int v) { while (__atomic_load_n(a, __ATOMIC_ACQUIRE) == v) syscall(SYS_futex, a, FUTEX_WAIT, v, NULL, NULL, 0); }
static void fwake(volatile int *a) { syscall(SYS_futex, a, FUTEX_WAKE, 1, NULL, NULL, 0); }

struct th { volatile int go; volatile int start; volatile int state; /* 1 ready 2 done */ int waitkind; void *waitm; int spins; int id; int hb_end; pthread_t pt; int in_timeout, timedout; long to_calls; };
static struct th *T; static int NT;   /* the thread pool; a pool with threads abandoned by a stuck execution is replaced by a fresh one */ static volatile int sched_go; static volatile int active; static __thread int me = -1;
static volatile struct { void *m; int owner; int depth; } MT[16]; static volatile int nmt;   /* volatile: read again after every hand-off */
static int mt(void *m) { for (int i = 0; i < nmt; i++) if (MT[i].m == m) return i; if (nmt >= 16) abort(); MT[nmt].m = m; MT[nmt].owner = -1; MT[nmt].depth = 0; return nmt++; }

int sc_choice[SC_MAXP], sc_nen[SC_MAXP], sc_cur_en[SC_MAXP], sc_who[SC_MAXP], sc_np;
int sc_prefix[SC_MAXP], sc_nprefix;
int sc_deadlock, sc_livelock, sc_overflow, sc_diverged;
/* Deviation "the wait for the lock times out" (sc_to_budget > 0): real time is replaced by a bounded environment deviation. With it
 * switched on there is a scheduling point right after every outermost acquisition, so that another thread can arrive while the
 * mutex is held; at most sc_to_budget times per execution a thread waiting for a held mutex may be scheduled all the same: its trylock
 * calls then get the real answer (EBUSY) without any further scheduling point until the library's wait loop gives up and runs its
 * stall breaker (Q_MUTEX_ENTER: 5000 failed attempts, then a forced Q_MUTEX_LEAVE) - the real macro code runs, nothing is faked.
 * After the forced unlock the thread waits again. */
int sc_to_budget; int sc_foreign_unlock, sc_timeouts;
static volatile int to_left;
static int clk;
int sc_clock(void) { return ++clk; }
int sc_self(void) { return me; }
int sc_lock_depth(void *m) { for (int i = 0; i < nmt; i++) if (MT[i].m == m) return MT[i].depth; return 0; }
int sc_lock_owner(void *m) { for (int i = 0; i < nmt; i++) if (MT[i].m == m) return MT[i].owner; return -1; }

static int enabled(int t) {
    if (T[t].state != 1) return 0;
    if (T[t].waitkind == 1) { int i = mt(T[t].waitm); return MT[i].owner == -1 || MT[i].owner == t || (to_left > 0 && !T[t].timedout); }
    return 1;
}
static void yield_to_sched(void) { T[me].go = 0; __atomic_store_n(&sched_go, 1, __ATOMIC_RELEASE); fwake(&sched_go); fwait(&T[me].go, 0); }
static void sc_point(int kind, void *m) { if (!active || me < 0) return; T[me].waitkind = kind; T[me].waitm = m; yield_to_sched(); T[me].waitkind = 0; }

int __real_pthread_mutex_trylock(pthread_mutex_t *); int __real_pthread_mutex_unlock(pthread_mutex_t *);
int __wrap_pthread_mutex_trylock(pthread_mutex_t *m) {
    if (!active || me < 0) return __real_pthread_mutex_trylock(m);
    int i = mt(m);
    if (T[me].in_timeout) {     /* inside the library's wait loop of a timed-out acquisition: real answers, no scheduling points */
        int r = __real_pthread_mutex_trylock(m);
        if (r == 0) { T[me].in_timeout = 0; MT[i].owner = me; MT[i].depth++; return 0; }
        if (++T[me].to_calls > 200000) { sc_livelock = 1; T[me].waitkind = 9; yield_to_sched(); }   /* the wait never gives up: parked for good */
        return r;
    }
    if (MT[i].owner != me) {
        sc_point(1, m);
        if (MT[i].owner != -1 && MT[i].owner != me) {   /* scheduled although the mutex is held: the time-out deviation */
            to_left--; sc_timeouts++; T[me].in_timeout = 1; T[me].timedout = 1; T[me].to_calls = 1;
            return __real_pthread_mutex_trylock(m);
        }
    }
    int r = __real_pthread_mutex_trylock(m);
    if (r != 0) { sc_diverged = 1; return r; }     /* cannot happen: we are only scheduled when the mutex is free */
    MT[i].owner = me; MT[i].depth++; T[me].spins = 0; T[me].timedout = 0;
    if (sc_to_budget > 0 && MT[i].depth == 1) sc_point(4, m);    /* holding: another thread may arrive now */
    return 0;
}
int __wrap_pthread_mutex_unlock(pthread_mutex_t *m) {
    if (!active || me < 0) return __real_pthread_mutex_unlock(m);
    int i = mt(m);
    int r = __real_pthread_mutex_unlock(m);
    if (T[me].in_timeout && MT[i].owner != me) {    /* the stall breaker's forced unlock of a mutex this thread does not hold */
        T[me].in_timeout = 0;
        if (r == 0) { sc_foreign_unlock = 1; MT[i].owner = -1; MT[i].depth = 0; }   /* it really took the mutex away from its owner */
        return r;
    }
    if (r == 0 && MT[i].owner == me) { if (--MT[i].depth == 0) { MT[i].owner = -1; sc_point(2, m); } }
    return r;
}
int __wrap_usleep(unsigned us) {
    (void)us;
    if (!active || me < 0) return 0;
    if (T[me].in_timeout) return 0;
    if (++T[me].spins > 64) { sc_livelock = 1; T[me].waitkind = 9; yield_to_sched(); }   /* parked for good */
    sc_point(3, 0);
    return 0;
}
/* a scheduling point for harnesses that have seams of their own (e.g. a wrapped read()) */
void sc_yield(void) { sc_point(3, 0); }
static void (*body)(int);
/* thread sanitizer annotations (present only in the tsan flavour): the pool threads are reused across executions,
 * so the edges "harness set-up -> thread body" and "thread body -> harness read-out" that pthread_create/join would
 * give are stated explicitly - and nothing else is */
void __tsan_acquire(void *) __attribute__((weak)); void __tsan_release(void *) __attribute__((weak));
static int hb_start;
static void *pool_main(void *a) {
    struct th *self = a;
    me = self->id;
    for (;;) {
        fwait(&self->start, 0); self->start = 0;
        if (__tsan_acquire) __tsan_acquire(&hb_start);
        fwait(&self->go, 0);
        body(me);
        if (__tsan_release) __tsan_release(&self->hb_end);
        self->state = 2;
        __atomic_store_n(&sched_go, 1, __ATOMIC_RELEASE); fwake(&sched_go);
    }
    return 0;
}
long sc_pools_created;
/* one execution: follow sc_prefix, then always choice 0 (running thread first if still enabled, then ascending ids) */
void sc_run(int nt, void (*b)(int)) {
    NT = nt; nmt = 0; sc_np = 0; sc_deadlock = sc_livelock = sc_overflow = sc_diverged = 0; clk = 0; body = b; to_left = sc_to_budget; sc_foreign_unlock = 0;
    if (!T) {   /* (re)create the pool; a pool with threads parked by a stuck execution is abandoned */
        T = calloc(SC_MAXT, sizeof *T); sc_pools_created++;
        pthread_attr_t at; pthread_attr_init(&at); pthread_attr_setstacksize(&at, 256 * 1024);
        for (int i = 0; i < SC_MAXT; i++) { T[i].id = i; pthread_create(&T[i].pt, &at, pool_main, &T[i]); pthread_detach(T[i].pt); }
        pthread_attr_destroy(&at);
    }
    active = 1;
    for (int i = 0; i < nt; i++) { T[i].go = 0; T[i].state = 1; T[i].waitkind = 0; T[i].spins = 0; T[i].in_timeout = T[i].timedout = 0; }
    if (__tsan_release) __tsan_release(&hb_start);
    for (int i = 0; i < nt; i++) { __atomic_store_n(&T[i].start, 1, __ATOMIC_RELEASE); fwake(&T[i].start); }
    int cur = -1;
    for (;;) {
        int en[SC_MAXT], ne = 0, cur_en = cur >= 0 && enabled(cur) && T[cur].waitkind != 9;
        if (cur_en) en[ne++] = cur;
        for (int i = 0; i < nt; i++) if (i != cur && enabled(i) && T[i].waitkind != 9) en[ne++] = i;
        if (ne == 0) { int alld = 1; for (int i = 0; i < nt; i++) if (T[i].state != 2) alld = 0; if (!alld && !sc_livelock) sc_deadlock = 1; break; }
        if (sc_np >= SC_MAXP) { sc_overflow = 1; break; }
        int c = 0; if (sc_np < sc_nprefix) c = sc_prefix[sc_np];
        if (c >= ne) { sc_diverged = 1; c = 0; }
        sc_choice[sc_np] = c; sc_nen[sc_np] = ne; sc_cur_en[sc_np] = cur_en; sc_who[sc_np] = en[c]; sc_np++;
        cur = en[c]; sched_go = 0;
        __atomic_store_n(&T[cur].go, 1, __ATOMIC_RELEASE); fwake(&T[cur].go);
        fwait(&sched_go, 0);
    }
    active = 0;
    if (sc_deadlock || sc_livelock || sc_overflow) T = NULL;      /* threads parked in the middle of a call: abandon this pool */
    else if (__tsan_acquire) for (int i = 0; i < nt; i++) __tsan_acquire(&T[i].hb_end);
}
