/* bigfmt.c - formatted insertion across the internal buffer-growth thresholds of DYNAMIC_VSPRINTF (1024 * 2^k):
 * putstrf / addstrf / qstrdupf / qstrcatf with results of every length 0..1100, 2046..2049, 4094..4097, 8190..8193, 16382..16385, 10000.
 *   bigfmt <container|all>
 */
#include "vc.h"
#include "vc_alloc.h"
#include "qlibc.h"
/* every length 0..1100 (any fixed-size staging buffer a formatted insert may use: 16, 32, 64, 128, 256, 512, 1024 - on both sides), then
 * the neighbourhood of every further doubling */
static int LENS[1200]; static int NLENS;
static void mklens(void) { for (int l = 0; l <= 1100; l++) LENS[NLENS++] = l; for (int b = 2048; b <= 16384; b *= 2) for (int d = -2; d <= 1; d++) LENS[NLENS++] = b + d; LENS[NLENS++] = 10000; }
static long n_eval;
static char *mk(int len) { char *s = malloc(len + 1); for (int i = 0; i < len; i++) s[i] = 'a' + (i * 7 + len) % 26; s[len] = 0; return s; }
static void chk(const char *fn, int len, const char *got, size_t gotsz, const char *exp) {
    char cls[96]; snprintf(cls, sizeof cls, "fmt:%s", fn);
    if (!got) vc_viol(cls, "%s with a %d-byte result: value not stored / NULL", fn, len);
    else if (gotsz != (size_t)len + 1 || memcmp(got, exp, len + 1)) vc_viol(cls, "%s with a %d-byte result: stored %zu bytes that differ from the formatted string", fn, len, gotsz);
}
static void one(const char *cont, int len) {
    char key[64]; snprintf(key, sizeof key, "bigfmt:%s:%d", cont, len);
    char label[64]; snprintf(label, sizeof label, "%s_putstrf", cont);
    if (!vc_case(label, key)) return;
    n_eval++;
    long live0 = va_live;
    char *s = mk(len); size_t sz = 0;
    if (!strcmp(cont, "qtreetbl")) { qtreetbl_t *t = qtreetbl(0); bool r = t->putstrf(t, "k", "%s", s); char *g = t->get(t, "k", &sz, false); if (!r) vc_viol("fmt:qtreetbl_putstrf", "putstrf(%d bytes) returned false", len); else chk("qtreetbl_putstrf", len, g, sz, s); r = t->putstrf(t, "n", "%d:%s", 7, s); g = t->getstr(t, "n", false); if (!r || !g || strncmp(g, "7:", 2) || strcmp(g + 2, s)) vc_viol("fmt:qtreetbl_putstrf", "putstrf(\"%%d:%%s\") with %d bytes stored the wrong string", len); t->free(t); }
    else if (!strcmp(cont, "qhashtbl")) { qhashtbl_t *t = qhashtbl(2, 0); bool r = t->putstrf(t, "k", "%s", s); char *g = t->get(t, "k", &sz, false); if (!r) vc_viol("fmt:qhashtbl_putstrf", "putstrf(%d bytes) returned false", len); else chk("qhashtbl_putstrf", len, g, sz, s); t->free(t); }
    else if (!strcmp(cont, "qlisttbl")) { qlisttbl_t *t = qlisttbl(0); bool r = t->putstrf(t, "k", "%s", s); char *g = t->get(t, "k", &sz, false); if (!r) vc_viol("fmt:qlisttbl_putstrf", "putstrf(%d bytes) returned false", len); else chk("qlisttbl_putstrf", len, g, sz, s); t->free(t); }
    else if (!strcmp(cont, "qhasharr")) { size_t ms = qhasharr_calculate_memsize(400); void *mem = malloc(ms); qhasharr_t *t = qhasharr(mem, ms); bool r = t->putstrf(t, "k", "%s", s); char *g = t->get(t, "k", &sz); if (!r) vc_viol("fmt:qhasharr_putstrf", "putstrf(%d bytes) returned false", len); else chk("qhasharr_putstrf", len, g, sz, s); free(g); t->free(t); free(mem); }
    else if (!strcmp(cont, "qgrow")) { qgrow_t *g = qgrow(0); bool r1 = g->addstrf(g, "%s", s), r2 = g->addstrf(g, "|%s", s); char *o = g->tostring(g); if (len == 0) { if (r1) vc_viol("fmt:qgrow_addstrf", "addstrf of an empty string accepted a zero-size piece"); } else if (!r1 || !r2 || !o || strlen(o) != 2 * (size_t)len + 1 || strncmp(o, s, len) || o[len] != '|' || strcmp(o + len + 1, s)) vc_viol("fmt:qgrow_addstrf", "addstrf with %d-byte pieces: concatenation differs", len); free(o); g->free(g); }
    else if (!strcmp(cont, "qstring")) { char *d = qstrdupf("%s", s); chk("qstrdupf", len, d, d ? strlen(d) + 1 : 0, s); free(d); char *buf = malloc(2 * len + 8); strcpy(buf, "x="); char *r = qstrcatf(buf, "%s!", s); if (r != buf || strncmp(buf, "x=", 2) || strncmp(buf + 2, s, len) || strcmp(buf + 2 + len, "!")) vc_viol("fmt:qstrcatf", "qstrcatf with a %d-byte piece gave the wrong string", len); free(buf); }
    free(s);
    if (va_live != live0) vc_viol("leak:blocks", "%s: %ld blocks leaked", key, va_live - live0);
    const char *a = vc_asan_check(); if (a) { char cls[160]; snprintf(cls, sizeof cls, "asan:%s:%s", a, label); vc_viol(cls, "%s: sanitizer report", key); }
    vc_case_end();
}
/* integer boundary family: putint/getint (decimal text inside the table) and pushint/popint/getint (8 bytes) for every
 * value 0, +-1, +-(10^k - 1), +-10^k (k = 1..18), INT64_MAX, INT64_MAX-1, INT64_MIN, INT64_MIN+1 - every digit count of the
 * formatting buffer, both signs */
static void intcase(const char *cont, int64_t v) {
    char key[80]; snprintf(key, sizeof key, "intfmt:%s:%lld", cont, (long long)v);
    char label[64]; snprintf(label, sizeof label, "%s_%s", cont, cont[1] == 'q' || cont[1] == 's' ? "pushint" : "putint");
    if (!vc_case(label, key)) return;
    n_eval++;
    long live0 = va_live;
    char exp[32]; int el = snprintf(exp, sizeof exp, "%lld", (long long)v); size_t sz = 0;
    if (!strcmp(cont, "qhashtbl")) { qhashtbl_t *t = qhashtbl(3, 0); bool r = t->putint(t, "k", v); if (!r) vc_viol("fmt:qhashtbl_putint", "putint(%s) returned false", exp); int64_t g = t->getint(t, "k"); if (g != v) vc_viol("map:getint", "putint(%s); getint = %lld", exp, (long long)g); char *d = t->get(t, "k", &sz, true); chk("qhashtbl_putint", el, d, sz, exp); free(d); char *gs = t->getstr(t, "k", false); if (!gs || strcmp(gs, exp)) vc_viol("map:getstr-value", "putint(%s); getstr = '%s'", exp, gs ? gs : "(null)"); t->free(t); }
    else if (!strcmp(cont, "qlisttbl")) { qlisttbl_t *t = qlisttbl(0); bool r = t->putint(t, "k", v); if (!r) vc_viol("fmt:qlisttbl_putint", "putint(%s) returned false", exp); int64_t g = t->getint(t, "k"); if (g != v) vc_viol("multimap:getint", "putint(%s); getint = %lld", exp, (long long)g); char *d = t->get(t, "k", &sz, true); chk("qlisttbl_putint", el, d, sz, exp); free(d); t->free(t); }
    else if (!strcmp(cont, "qqueue")) { qqueue_t *q = qqueue(0); q->pushint(q, v); q->pushint(q, ~v); int64_t a = q->getint(q), b = q->popint(q), c = q->popint(q); if (a != v || b != v || c != ~v) vc_viol("seq:int", "qqueue pushint(%s): getint %lld popint %lld, %lld", exp, (long long)a, (long long)b, (long long)c); q->free(q); }
    else if (!strcmp(cont, "qstack")) { qstack_t *q = qstack(0); q->pushint(q, ~v); q->pushint(q, v); int64_t a = q->getint(q), b = q->popint(q), c = q->popint(q); if (a != v || b != v || c != ~v) vc_viol("seq:int", "qstack pushint(%s): getint %lld popint %lld, %lld", exp, (long long)a, (long long)b, (long long)c); q->free(q); }
    if (va_live != live0) vc_viol("leak:blocks", "%s: %ld blocks leaked", key, va_live - live0);
    const char *a = vc_asan_check(); if (a) { char cls[160]; snprintf(cls, sizeof cls, "asan:%s:%s", a, label); vc_viol(cls, "%s: sanitizer report", key); }
    vc_case_end();
}
static void ints(const char *cont) {
    int64_t p = 1;
    intcase(cont, 0);
    for (int k = 0; k <= 18; k++) { intcase(cont, p); intcase(cont, -p); if (k) { intcase(cont, p - 1); intcase(cont, -(p - 1)); } if (k < 18) p *= 10; }
    intcase(cont, INT64_MAX); intcase(cont, INT64_MAX - 1); intcase(cont, INT64_MIN); intcase(cont, INT64_MIN + 1);
}
static int worker(int argc, char **argv) {
    const char *all[] = {"qtreetbl", "qhashtbl", "qlisttbl", "qhasharr", "qgrow", "qstring"};
    if (vc_replay_key && !strncmp(vc_replay_key, "intfmt:", 7)) { char c[32]; long long v; if (sscanf(vc_replay_key, "intfmt:%31[^:]:%lld", c, &v) == 2) intcase(c, v); return 0; }
    if (vc_replay_key) { char c[32]; int len; if (sscanf(vc_replay_key, "bigfmt:%31[^:]:%d", c, &len) == 2) one(c, len); return 0; }
    mklens();
    for (int i = 0; i < 6; i++) if (argc < 2 || !strcmp(argv[1], "all") || !strcmp(argv[1], all[i])) for (int l = 0; l < NLENS; l++) one(all[i], LENS[l]);
    { const char *ic[] = {"qhashtbl", "qlisttbl", "qqueue", "qstack"}; for (int i = 0; i < 4; i++) if (argc < 2 || !strcmp(argv[1], "all") || !strcmp(argv[1], ic[i])) ints(ic[i]); }
    vc_stat_add("evaluations", n_eval); vc_stat_add("transitions", n_eval); vc_stat_add("states", n_eval); vc_stat_add("nontrivial", n_eval);
    vc_sample("putstrf(key, \"%%s\", <1023 / 1024 / 1025 / 2048 / 10000 byte string>) on every container with a formatted insert");
    return 0;
}
int main(int argc, char **argv) { return vc_main(argc, argv, worker); }
