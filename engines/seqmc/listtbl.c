/* listtbl.c - E1 search over qlisttbl histories under one option combination (C08, with C11/C12 oracles).
 *   listtbl <optbits 0..15> <L> <NV>        optbits: 1 UNIQUE, 2 CASEINSENSITIVE, 4 INSERTTOP, 8 LOOKUPFORWARD
 *   listtbl values <optbits>                 save/load value dimension: all strings of length 0..3 over 16 bytes
 */
#include "vc.h"
#include "vc_alloc.h"
#include "seqmc.h"
#include <strings.h>
#include "qlibc.h"

#define MAXL 8
static const char *NAMES[4] = {"a", "A", "b", "zz"};       /* zz is never stored */
/* "pair" mode: two names with the same 32-bit MurmurHash3 value, one a proper prefix of the other, and a third with that prefix (lookups compare the hash first, the name second) */
static const char *PAIRNAMES[4] = {"session6aa6b62c", "session", "sessio", "zz"};
typedef struct { unsigned char b[12]; size_t n; int kind; } val_t;   /* 0 putstr, 1 putint, 2 put(bytes) */
static const val_t VAL[4] = {{"x", 2, 0}, {"p q", 4, 0}, {"42", 3, 1}, {{1, 0, 2}, 3, 2}};
static int OPT, L, NV, UNIQ, CASEI, TOP, FWD, LIBOPT;
typedef struct { int n; int nm[MAXL + 2], vl[MAXL + 2]; } model_t;
static sm_spec_t SP;
static int mfd = -1; static char mpath[64];

static int nmatch(int a, int b) { return CASEI ? !strcasecmp(NAMES[a], NAMES[b]) : !strcmp(NAMES[a], NAMES[b]); }
static void m_remove_matching(model_t *m, int name) { int j = 0; for (int i = 0; i < m->n; i++) if (!nmatch(m->nm[i], name)) { m->nm[j] = m->nm[i]; m->vl[j] = m->vl[i]; j++; } m->n = j; }
static int m_count_matching(const model_t *m, int name) { int c = 0; for (int i = 0; i < m->n; i++) c += nmatch(m->nm[i], name); return c; }
static void m_put(model_t *m, int name, int v, int uniq, int top) {
    if (uniq) m_remove_matching(m, name);
    if (top) { memmove(m->nm + 1, m->nm, sizeof(int) * m->n); memmove(m->vl + 1, m->vl, sizeof(int) * m->n); m->nm[0] = name; m->vl[0] = v; }
    else { m->nm[m->n] = name; m->vl[m->n] = v; }
    m->n++;
}
/* index of the i-th entry in lookup order */
static int lk(const model_t *m, int i) { return FWD ? i : m->n - 1 - i; }

enum { OP_PUT, OP_REMOVE, OP_REMOVEOBJ, OP_SORT, OP_CLEAR, OP_IOFAIL, OP_ALIAS, OP_GET };
typedef struct { int kind, k, v; const char *label; } op_t;
static op_t OPS[128]; static int NOPS;
static const char *op_label(int op) { return OPS[op].label; }
static int nameid(const char *s) { for (int i = 0; i < 3; i++) if (!strcmp(NAMES[i], s)) return i; return -1; }
static int valid(const void *d, size_t n) { for (int i = 0; i < 4; i++) if (VAL[i].n == n && !memcmp(VAL[i].b, d, n)) return i; return -1; }

/* structure: forward list == reverse of backward list, counters consistent; also builds the canonical key */
static void canon(qlisttbl_t *t, char *out, const char *after) {
    char *p = out; int n = 0; qlisttbl_obj_t *o, *last = NULL;
    for (o = t->first; o && n < 64; o = o->next, n++) {
        if (o->prev != last) vc_viol("list:links", "after %s: entry %d has a wrong prev link", after, n);
        p += sprintf(p, "%d:%d ", nameid(o->name), valid(o->data, o->size)); last = o;
    }
    if (t->last != last) vc_viol("list:links", "after %s: tbl->last does not point at the final entry", after);
    if ((size_t)n != t->num) vc_viol("list:links", "after %s: %d entries linked, num = %zu", after, n, t->num);
    *p = 0;
}
/* walk in lookup direction; name may be NULL (unfiltered) */
static int walk(qlisttbl_t *t, const char *name, int newmem, int *on, int *ov, const char *after) {
    qlisttbl_obj_t ob; memset(&ob, 0, sizeof ob); int c = 0;
    char *nb = name ? sm_fresh(name, strlen(name) + 1) : NULL;
    while (t->getnext(t, &ob, nb, newmem)) {
        if (c >= 32) { vc_viol("multimap:walk-endless", "after %s: walk returned more than 32 entries", after); if (newmem) { free(ob.name); free(ob.data); } break; }
        on[c] = ob.name ? nameid(ob.name) : -1; ov[c] = valid(ob.data, ob.size); c++;
        if (newmem) { sm_hold(ob.name, ob.name, strlen(ob.name) + 1, "qlisttbl_getnext(newmem) name"); sm_hold(ob.data, ob.data, ob.size, "qlisttbl_getnext(newmem) data"); }
    }
    if (nb) sm_scribble(nb, strlen(name) + 1);
    return c;
}
/* refused calls: invalid arguments must be rejected with EINVAL; they run BEFORE the observation so that any effect they had is seen by it */
static void refused_calls(qlisttbl_t *t, const char *after) {
    for (int q = 0; q < 3; q++) {
        errno = 0; if (t->putstr(t, NAMES[q], NULL) || errno != EINVAL) vc_viol("multimap:einval", "after %s: putstr('%s', NULL) not refused with EINVAL", after, NAMES[q]);
        errno = 0; if (t->put(t, NAMES[q], "x", 0) || errno != EINVAL) vc_viol("multimap:einval", "after %s: put('%s', size 0) not refused with EINVAL", after, NAMES[q]);
    }
    errno = 0; if (t->put(t, NULL, "x", 2) || errno != EINVAL) vc_viol("multimap:einval", "after %s: put(NULL name) not refused with EINVAL", after);
    errno = 0; if (t->get(t, NULL, NULL, false) || errno != EINVAL) vc_viol("multimap:einval", "after %s: get(NULL name) not refused with EINVAL", after);
    if (t->remove(t, NULL) != 0) vc_viol("multimap:einval", "after %s: remove(NULL) removed something", after);
    if (t->removeobj(t, NULL)) vc_viol("multimap:einval", "after %s: removeobj(NULL) returned true", after);
}
static void observe(qlisttbl_t *t, const model_t *m, const char *after) {
    refused_calls(t, after);
    /* the options chosen at construction are part of the state every later operation depends on */
    if (t->unique != (bool)UNIQ || (t->namecmp == strcasecmp) != (bool)CASEI || t->inserttop != (bool)TOP || t->lookupforward != (bool)FWD)
        vc_viol("multimap:options-changed", "after %s: options are unique=%d case-insensitive=%d inserttop=%d lookupforward=%d, constructed with %d %d %d %d", after, t->unique, t->namecmp == strcasecmp, t->inserttop, t->lookupforward, UNIQ, CASEI, TOP, FWD);
    if ((int)t->size(t) != m->n) vc_viol("multimap:size", "after %s: size() = %zu, model has %d entries", after, t->size(t), m->n);
    for (int q = 0; q < 4; q++) {   /* optional out-parameters omitted: same answers */
        int have = 0; for (int i = 0; i < m->n; i++) have |= CASEI ? !strcasecmp(NAMES[m->nm[i]], NAMES[q]) : !strcmp(NAMES[m->nm[i]], NAMES[q]);
        void *d = t->get(t, NAMES[q], NULL, false); qlisttbl_data_t *mu = t->getmulti(t, NAMES[q], false, NULL);
        if ((d != NULL) != have || (mu != NULL) != have) vc_viol("multimap:null-size-pointer", "after %s: get / getmulti of '%s' without an out-parameter disagree with the model", after, NAMES[q]);
        if (mu) t->freemulti(mu);
    }
    int gn[40], gv[40];
    for (int nm = 0; nm < 2; nm++) {    /* unfiltered walk = all entries in lookup order */
        int c = walk(t, NULL, nm, gn, gv, after), bad = c != m->n;
        for (int i = 0; i < c && !bad; i++) bad = gn[i] != m->nm[lk(m, i)] || gv[i] != m->vl[lk(m, i)];
        if (bad) vc_viol("multimap:order", "after %s: unfiltered walk (newmem=%d) returned %d entries that differ from the model's %d in lookup order", after, nm, c, m->n);
    }
    for (int q = 0; q < 4; q++) {
        size_t qn = strlen(NAMES[q]) + 1;
        int en[40], ev[40], ec = 0;    /* expected matches in lookup order */
        for (int i = 0; i < m->n; i++) { int j = lk(m, i); if (nmatch(m->nm[j], q)) { en[ec] = m->nm[j]; ev[ec] = m->vl[j]; ec++; } }
        for (int nm = 0; nm < 2; nm++) {
            char *kb = sm_fresh(NAMES[q], qn); size_t sz = 999; errno = 0;
            void *d = t->get(t, kb, &sz, nm); int e = errno;
            sm_scribble(kb, qn);
            if (ec == 0) { if (d) vc_viol("multimap:get-absent", "after %s: get('%s') returned data although no entry matches", after, NAMES[q]); else if (e != ENOENT) vc_viol("multimap:get-errno", "after %s: get of absent name: errno %d", after, e); }
            else if (!d) vc_viol("multimap:get-missing", "after %s: get('%s') returned NULL", after, NAMES[q]);
            else if (sz != VAL[ev[0]].n || memcmp(d, VAL[ev[0]].b, sz)) vc_viol("multimap:get-first-match", "after %s: get('%s') is not the first match in lookup direction (expected value version %d)", after, NAMES[q], ev[0]);
            if (d && nm) sm_hold(d, d, sz, "qlisttbl_get(newmem)");
            /* name-filtered walk */
            int c = walk(t, NAMES[q], nm, gn, gv, after), bad = c != ec;
            for (int i = 0; i < c && !bad; i++) bad = gn[i] != en[i] || gv[i] != ev[i];
            if (bad) vc_viol("multimap:filtered-walk", "after %s: walk filtered by '%s' returned %d entries, expected %d matches in lookup order", after, NAMES[q], c, ec);
            /* getmulti */
            kb = sm_fresh(NAMES[q], qn); size_t num = 777; errno = 0;
            qlisttbl_data_t *objs = t->getmulti(t, kb, nm, &num);
            sm_scribble(kb, qn);
            if ((int)num != ec) vc_viol("multimap:getmulti-count", "after %s: getmulti('%s') found %zu, expected %d", after, NAMES[q], num, ec);
            else if (ec == 0) { if (objs) vc_viol("multimap:getmulti-count", "after %s: getmulti returned an array for no match", after); }
            else if (!objs) vc_viol("multimap:getmulti-null", "after %s: getmulti('%s') returned NULL", after, NAMES[q]);
            else {
                for (int i = 0; i < ec; i++) if (objs[i].size != VAL[ev[i]].n || memcmp(objs[i].data, VAL[ev[i]].b, objs[i].size) || objs[i].type != (nm ? 2 : 1)) { vc_viol("multimap:getmulti-order", "after %s: getmulti('%s') element %d differs", after, NAMES[q], i); break; }
                if (objs[ec].type != 0) vc_viol("multimap:getmulti-terminator", "after %s: getmulti array not terminated", after);
            }
            if (objs) t->freemulti(objs);
        }
        char *kb = sm_fresh(NAMES[q], qn);
        char *s = t->getstr(t, kb, true);
        if ((s != NULL) != (ec > 0)) vc_viol("multimap:getstr", "after %s: getstr('%s') presence wrong", after, NAMES[q]);
        else if (s && memcmp(s, VAL[ev[0]].b, VAL[ev[0]].n)) vc_viol("multimap:getstr", "after %s: getstr('%s') wrong bytes", after, NAMES[q]);
        if (s) sm_hold(s, s, VAL[ev[0]].n, "qlisttbl_getstr(newmem)");
        int64_t iv = t->getint(t, kb);
        if (ec > 0 && VAL[ev[0]].kind == 1 && iv != 42) vc_viol("multimap:getint", "after %s: getint('%s') = %lld", after, NAMES[q], (long long)iv);
        if (ec == 0 && iv != 0) vc_viol("multimap:getint", "after %s: getint of absent name = %lld", after, (long long)iv);
        sm_scribble(kb, qn);
    }
}
/* save (URL-encoded values) and load into a fresh table with the given options: same entries, same order
 * (a UNIQUE loader keeps the last of equal names, which cannot occur when the saved table was UNIQUE as well) */
static long n_saveload;
static void saveload(qlisttbl_t *t, const model_t *m, int loadopt, const char *after) {
    for (int i = 0; i < m->n; i++) if (VAL[m->vl[i]].kind == 2) return;   /* only tables of string values */
    if (mfd < 0) { mfd = memfd_create("listtbl", 0); snprintf(mpath, sizeof mpath, "/proc/self/fd/%d", mfd); }
    n_saveload++;
    if (!t->save(t, mpath, '=', true)) { vc_viol("saveload:save-failed", "after %s: save returned false", after); return; }
    qlisttbl_t *t2 = qlisttbl(loadopt << 1);
    ssize_t r = t2->load(t2, mpath, '=', true);
    /* load() is documented to append at the bottom "to preserve the order as it was", whatever the insert-top option says */
    model_t m2; m2.n = 0;
    for (int i = 0; i < m->n; i++) m_put(&m2, m->nm[i], m->vl[i], loadopt & 1, 0);
    if (r != m->n) vc_viol("saveload:count", "after %s: load reported %zd entries, %d were saved", after, r, m->n);
    int n = 0; qlisttbl_obj_t *o; int bad = 0;
    for (o = t2->first; o; o = o->next, n++) if (n >= m2.n || nameid(o->name) != m2.nm[n] || valid(o->data, o->size) != m2.vl[n]) { bad = 1; break; }
    if (bad || n != m2.n) vc_viol("saveload:entries", "after %s: loaded table differs from the saved entries (entry %d, %d loaded, %d expected)", after, n, (int)t2->size(t2), m2.n);
    t2->free(t2);
}
static int apply(qlisttbl_t *t, model_t *m, const op_t *op, int check, const char *after) {
    switch (op->kind) {
        case OP_PUT: {
            int after_n = m->n - (UNIQ ? m_count_matching(m, op->k) : 0) + 1;
            if (after_n > L) return 1;
            const val_t *v = &VAL[op->v]; size_t kn = strlen(NAMES[op->k]) + 1;
            char *kb = sm_fresh(NAMES[op->k], kn); void *vb = sm_fresh(v->b, v->n); bool r;
            if (v->kind == 0) r = t->putstr(t, kb, vb); else if (v->kind == 1) r = t->putint(t, kb, 42); else r = t->put(t, kb, vb, v->n);
            sm_scribble(kb, kn); sm_scribble(vb, v->n);
            if (check && !r) vc_viol("multimap:put-failed", "%s: put returned false", after);
            m_put(m, op->k, op->v, UNIQ, TOP); break;
        }
        case OP_REMOVE: {
            size_t kn = strlen(NAMES[op->k]) + 1; char *kb = sm_fresh(NAMES[op->k], kn);
            size_t r = t->remove(t, kb);
            sm_scribble(kb, kn);
            int want = m_count_matching(m, op->k);
            if (check && (int)r != want) vc_viol("multimap:remove-count", "%s: remove('%s') returned %zu, %d entries match", after, NAMES[op->k], r, want);
            m_remove_matching(m, op->k); break;
        }
        case OP_REMOVEOBJ: {   /* remove the k-th entry met during an unfiltered walk; the walk continues */
            if (op->k >= m->n) return 1;
            qlisttbl_obj_t ob; memset(&ob, 0, sizeof ob); int c = 0, bad = 0; int n0 = m->n;
            int nm = op->v;   /* copying walk: the cursor then carries the caller's own copies, which removeobj must leave alone */
            while (t->getnext(t, &ob, NULL, nm)) {
                if (c > 32) { bad = 1; if (nm) { free(ob.name); free(ob.data); } break; }
                int idx = lk(m, c);   /* index in the model before removal */
                if (nameid(ob.name) != m->nm[idx] || valid(ob.data, ob.size) != m->vl[idx]) bad = 1;
                if (c == op->k) { if (!t->removeobj(t, &ob) && check) vc_viol("multimap:removeobj-failed", "%s: removeobj returned false", after); }
                if (nm) { sm_hold(ob.name, ob.name, strlen(ob.name) + 1, "qlisttbl_getnext(newmem) name"); if (ob.data) sm_hold(ob.data, ob.data, ob.size, "qlisttbl_getnext(newmem) data"); }
                c++;
            }
            if (check && (bad || c != n0)) vc_viol("multimap:removeobj-walk", "%s: walk with removal of entry %d visited %d entries (expected %d) or met wrong entries", after, op->k, c, n0);
            int idx = lk(m, op->k);
            memmove(m->nm + idx, m->nm + idx + 1, sizeof(int) * (m->n - idx - 1)); memmove(m->vl + idx, m->vl + idx + 1, sizeof(int) * (m->n - idx - 1)); m->n--;
            break;
        }
        case OP_ALIAS: {   /* the name argument is the table's own key string of the k-th entry (zero-copy getnext): remove(name) / putstr(name, v) */
            if (op->k >= m->n) return 1;
            int idx = lk(m, op->k), nm = m->nm[idx];
            if (op->v == 1) { int after_n = m->n - (UNIQ ? m_count_matching(m, nm) : 0) + 1; if (after_n > L) return 1; }
            qlisttbl_obj_t ob; memset(&ob, 0, sizeof ob); int c = 0;
            while (t->getnext(t, &ob, NULL, false) && c < op->k) c++;
            if (op->v == 0) {
                int want = m_count_matching(m, nm);
                size_t r = t->remove(t, ob.name);
                if (check && (int)r != want) vc_viol("multimap:remove-count", "%s: remove(key string of entry %d itself) returned %zu, %d entries match", after, op->k, r, want);
                m_remove_matching(m, nm);
            } else {
                bool r = t->putstr(t, ob.name, (const char *)VAL[0].b);
                if (check && !r) vc_viol("multimap:put-failed", "%s: putstr(key string of entry %d itself) returned false", after, op->k);
                m_put(m, nm, 0, UNIQ, TOP);
            }
            break;
        }
        case OP_IOFAIL: {   /* load of a file that cannot be read / save to a path that cannot be written: refused, nothing changes (also not the insert mode) */
            errno = 0;
            if (op->k == 0) { ssize_t r = t->load(t, "/nonexistent-dir/none.txt", '=', true); if (check && r != -1) vc_viol("saveload:missing-file", "%s: load of a missing file returned %zd", after, r); }
            else { bool r = t->save(t, "/nonexistent-dir/none.txt", '=', true); if (check && r) vc_viol("saveload:unwritable-file", "%s: save to an unwritable path returned true", after); }
            break;
        }
        case OP_SORT: {
            t->sort(t);
            for (int i = 1; i < m->n; i++) {   /* stable insertion sort on the model */
                int a = m->nm[i], b = m->vl[i], j = i - 1;
                while (j >= 0 && (CASEI ? strcasecmp(NAMES[m->nm[j]], NAMES[a]) : strcmp(NAMES[m->nm[j]], NAMES[a])) > 0) { m->nm[j + 1] = m->nm[j]; m->vl[j + 1] = m->vl[j]; j--; }
                m->nm[j + 1] = a; m->vl[j + 1] = b;
            }
            break;
        }
        case OP_CLEAR: t->clear(t); m->n = 0; break;
        case OP_GET: {   /* a read as an operation (see sm_histories in seqmc.h): k = name, v = 0 get / 1 getmulti count */
            int q = op->k, ev0 = -1, ec = 0;
            for (int i = 0; i < m->n; i++) { int j = lk(m, i); if (nmatch(m->nm[j], q)) { if (!ec) ev0 = m->vl[j]; ec++; } }
            if (op->v == 0) { size_t sz = 999; void *d = t->get(t, NAMES[q], &sz, false);
                if (check) { if (!ec) { if (d) vc_viol("multimap:get-absent", "%s: get('%s') returned data although no entry matches", after, NAMES[q]); }
                             else if (!d) vc_viol("multimap:get-missing", "%s: get('%s') returned NULL", after, NAMES[q]);
                             else if (sz != VAL[ev0].n || memcmp(d, VAL[ev0].b, sz)) vc_viol("multimap:get-first-match", "%s: get('%s') is not the first match in lookup direction", after, NAMES[q]); } }
            else { size_t n = 777; qlisttbl_data_t *mu = t->getmulti(t, NAMES[q], false, &n); if (check && (int)n != ec) vc_viol("multimap:getmulti-count", "%s: getmulti('%s') found %zu entries, %d match", after, NAMES[q], n, ec); if (mu) t->freemulti(mu); }
            break;
        }
    }
    return 0;
}
static int transition(const uint16_t *hist, int d, int opi, char *ckey, int verbose) {
    long live0 = va_live; model_t m; m.n = 0;
    qlisttbl_t *t = qlisttbl(LIBOPT);
    char after[64];
    for (int i = 0; i < d; i++) { snprintf(after, sizeof after, "step %d (op %d)", i, hist[i]); apply(t, &m, &OPS[hist[i]], verbose, after); if (verbose) observe(t, &m, after); }
    vc_asan_check();   /* reports raised by the history prefix belong to the transitions that ended in those ops */
    snprintf(after, sizeof after, "op %d", opi);
    if (!sm_hist_mode) for (int q = 0; q < 3; q++) { size_t sz = 0; void *d = t->get(t, NAMES[q], &sz, true); if (d) sm_hold(d, d, sz, "qlisttbl_get(newmem) taken before the operation"); }
    if (apply(t, &m, &OPS[opi], 1, after) == 1) { sm_release_held(); t->free(t); return 1; }
    refused_calls(t, after);
    canon(t, ckey, after);
    { char want[128], *w = want; for (int i = 0; i < m.n; i++) w += sprintf(w, "%d:%d ", m.nm[i], m.vl[i]); *w = 0; if (strcmp(want, ckey)) vc_viol("multimap:content", "after %s: table holds [%s], expected [%s]", after, ckey, want); }
    observe(t, &m, after);
    saveload(t, &m, OPT, after);
    if (TOP) saveload(t, &m, OPT & ~4, after);   /* loading into an appending table keeps the saved order */
    sm_verify_held("while the container was still alive");
    t->free(t);
    sm_verify_held("after the container was freed");
    sm_release_held();
    sm_leakcheck(live0, after);
    sm_asan(OPS[opi].label);
    return 0;
}
static void initial(char *ckey) { qlisttbl_t *t = qlisttbl(LIBOPT); canon(t, ckey, "ctor"); t->free(t); }
static void setup(void) {
    UNIQ = OPT & 1; CASEI = (OPT >> 1) & 1; TOP = (OPT >> 2) & 1; FWD = (OPT >> 3) & 1; LIBOPT = OPT << 1;
    NOPS = 0;
    for (int k = 0; k < 3; k++) for (int v = 0; v < NV; v++) OPS[NOPS++] = (op_t){OP_PUT, k, v, VAL[v].kind == 0 ? "qlisttbl_putstr" : VAL[v].kind == 1 ? "qlisttbl_putint" : "qlisttbl_put"};
    for (int k = 0; k < 4; k++) OPS[NOPS++] = (op_t){OP_REMOVE, k, 0, "qlisttbl_remove"};
    for (int i = 0; i < L; i++) for (int nm = 0; nm < 2; nm++) OPS[NOPS++] = (op_t){OP_REMOVEOBJ, i, nm, "qlisttbl_removeobj"};
    for (int i = 0; i < L; i++) { OPS[NOPS++] = (op_t){OP_ALIAS, i, 0, "qlisttbl_remove"}; OPS[NOPS++] = (op_t){OP_ALIAS, i, 1, "qlisttbl_putstr"}; }
    OPS[NOPS++] = (op_t){OP_SORT, 0, 0, "qlisttbl_sort"};
    OPS[NOPS++] = (op_t){OP_IOFAIL, 0, 0, "qlisttbl_load"}; OPS[NOPS++] = (op_t){OP_IOFAIL, 1, 0, "qlisttbl_save"};
    OPS[NOPS++] = (op_t){OP_CLEAR, 0, 0, "qlisttbl_clear"};
    if (sm_hist_mode) for (int q = 0; q < 4; q++) { OPS[NOPS++] = (op_t){OP_GET, q, 0, "qlisttbl_get"}; OPS[NOPS++] = (op_t){OP_GET, q, 1, "qlisttbl_getmulti"}; }   /* in the closure a read is a self-loop that the observation already covers */
    snprintf(SP.prefix, sizeof SP.prefix, "listtbl:%d:%d:%d:", OPT, L, NV);
    SP.nops = NOPS; SP.label = op_label; SP.transition = transition; SP.initial = initial;
}

/* ---- value dimension of save/load: every string of length 0..3 over 16 significant bytes ---- */
static const unsigned char VA[16] = {'a', ' ', '\t', '\n', '\r', '%', '+', '=', '#', '&', '"', '\\', 0x01, 0x7f, 0x80, 0xff};
static long n_values;
static void value_case(const char *v1, const char *v2) {
    char key[64], h1[16], h2[16]; vc_hex(h1, v1, strlen(v1)); vc_hex(h2, v2 ? v2 : "", v2 ? strlen(v2) : 0);
    snprintf(key, sizeof key, "listtbl-values:%d:%s:%s", OPT, h1, v2 ? h2 : "-");
    if (!vc_case("qlisttbl_save", key)) return;
    n_values++;
    long live0 = va_live;
    if (mfd < 0) { mfd = memfd_create("listtbl", 0); snprintf(mpath, sizeof mpath, "/proc/self/fd/%d", mfd); }
    qlisttbl_t *t = qlisttbl(LIBOPT), *t2 = qlisttbl(LIBOPT);
    char *b1 = sm_fresh(v1, strlen(v1) + 1); t->putstr(t, "k1", b1); sm_scribble(b1, strlen(v1) + 1);
    if (v2) { char *b2 = sm_fresh(v2, strlen(v2) + 1); t->putstr(t, "k2", b2); sm_scribble(b2, strlen(v2) + 1); }
    int n = v2 ? 2 : 1;
    if (!t->save(t, mpath, '=', true)) vc_viol("saveload:save-failed", "%s", key);
    vc_label("qlisttbl_load");
    ssize_t r = t2->load(t2, mpath, '=', true);
    if (r != n) vc_viol("saveload:count", "%s: load reported %zd entries, %d were saved", key, r, n);
    /* same entries in the same (file = first..last) order */
    qlisttbl_obj_t *a = t->first, *b = t2->first; int i = 0;
    for (; a && b; a = a->next, b = b->next, i++) if (strcmp(a->name, b->name) || a->size != b->size || memcmp(a->data, b->data, a->size)) break;
    if (a || b) vc_viol("saveload:value", "%s: entry %d is not reproduced byte for byte", key, i);
    t->free(t); t2->free(t2);
    sm_leakcheck(live0, "save/load");
    sm_asan("qlisttbl_save/load");
    vc_case_end();
}
static void run_values(void) {
    char s[4][8]; int cnt = 0; static char all[5000][4];
    for (int len = 0; len <= 3; len++) { int tot = 1; for (int i = 0; i < len; i++) tot *= 16; for (int x = 0; x < tot; x++) { int y = x; for (int i = 0; i < len; i++) { all[cnt][i] = VA[y % 16]; y /= 16; } all[cnt][len] = 0; cnt++; } }
    (void)s;
    for (int i = 0; i < cnt; i++) value_case(all[i], NULL);
    /* two entries: each value next to each of 17 partners (all strings of length <= 1) */
    for (int i = 0; i < cnt; i++) for (int j = 0; j < 17; j++) value_case(all[i], all[j]);
    vc_stat_add("evaluations", n_values); vc_stat_add("transitions", n_values); vc_stat_add("states", cnt);
    vc_sample("save/load of k1=<all strings of length 0..3 over {a,SP,TAB,LF,CR,%%,+,=,#,&,\",\\,01,7f,80,ff}>, alone and next to k2");
}
/* ---- internal growth thresholds: getmulti over 0..45 entries of one name (its array grows at 10, 20, 40) ---- */
static void multi_case(int n, int other) {
    char key[64]; snprintf(key, sizeof key, "listtbl-multi:%d:%d:%d", OPT, n, other);
    if (!vc_case("qlisttbl_getmulti", key)) return;
    n_values++;
    long live0 = va_live;
    qlisttbl_t *t = qlisttbl(LIBOPT & ~QLISTTBL_UNIQUE);
    char val[16];
    for (int i = 0; i < n; i++) { snprintf(val, sizeof val, "v%03d", i); t->putstr(t, "dup", val); if (other && (i % other) == 0) t->putstr(t, "other", "o"); }
    for (int nm = 0; nm < 2; nm++) {
        size_t cnt = 9999; errno = 0; qlisttbl_data_t *d = t->getmulti(t, CASEI ? "DUP" : "dup", nm, &cnt);
        if ((int)cnt != n) vc_viol("multimap:getmulti-count", "%s: getmulti found %zu of %d entries", key, cnt, n);
        else if (n == 0) { if (d) vc_viol("multimap:getmulti-count", "%s: array returned for no match", key); }
        else if (!d) vc_viol("multimap:getmulti-null", "%s: NULL for %d matches", key, n);
        else {
            for (int i = 0; i < n; i++) { int idx = (TOP ? n - 1 - i : i); if (!FWD) idx = n - 1 - idx; snprintf(val, sizeof val, "v%03d", idx); if (d[i].size != 5 || memcmp(d[i].data, val, 5) || d[i].type != (nm ? 2 : 1)) { vc_viol("multimap:getmulti-order", "%s: element %d is '%.5s', expected %s", key, i, (char *)d[i].data, val); break; } }
            if (d[n].type != 0) vc_viol("multimap:getmulti-terminator", "%s: array of %d elements not terminated", key, n);
        }
        if (d) t->freemulti(d);
    }
    t->free(t);
    sm_leakcheck(live0, "getmulti");
    sm_asan("qlisttbl_getmulti");
    vc_case_end();
}
static void run_multi(void) {
    for (int n = 0; n <= 45; n++) for (int other = 0; other <= 3; other += 3) multi_case(n, other);
    vc_stat_add("evaluations", n_values); vc_stat_add("transitions", n_values); vc_stat_add("states", 46);
    vc_sample("getmulti over 0..45 entries named dup (array growth at 10, 20, 40), both newmem modes, order per options");
}
static int worker(int argc, char **argv) {
    if (vc_replay_key) {
        int off;
        if (!strncmp(vc_replay_key, "listtbl-multi:", 14)) { int n, o; sscanf(vc_replay_key + 14, "%d:%d:%d", &OPT, &n, &o); NV = 2; L = 3; setup(); multi_case(n, o); return 0; }
        if (!strncmp(vc_replay_key, "listtbl-values:", 15)) {
            char h1[32], h2[32]; sscanf(vc_replay_key + 15, "%d:%31[^:]:%31s", &OPT, h1, h2); NV = 2; L = 3; setup();
            unsigned char a[16], b[16]; size_t na, nb = 0;
            if (h1[0] == ':' || sscanf(vc_replay_key + 15, "%d::%31s", &OPT, h2) == 2) { na = 0; } else na = vc_unhex(h1, a);
            a[na] = 0; int two = strcmp(h2, "-") != 0; if (two) nb = vc_unhex(h2, b); b[nb] = 0;
            value_case((char *)a, two ? (char *)b : NULL); return 0;
        }
        if (!strncmp(vc_replay_key, "listtblpair:", 12)) { for (int i = 0; i < 4; i++) NAMES[i] = PAIRNAMES[i]; sscanf(vc_replay_key, "listtblpair:%d:%n", &OPT, &off); L = 3; NV = 2; setup(); vc_case("replay", vc_replay_key); return sm_replay(&SP, vc_replay_key + off); }
        if (sscanf(vc_replay_key, "listtbl:%d:%d:%d:%n", &OPT, &L, &NV, &off) < 3) return 1;
        if (argc >= 5 && !strcmp(argv[4], "hist")) sm_hist_mode = 1;
        setup(); vc_case("replay", vc_replay_key); return sm_replay(&SP, vc_replay_key + off);
    }
    if (argc < 3) return 1;
    if (!strcmp(argv[1], "pair")) { for (int i = 0; i < 4; i++) NAMES[i] = PAIRNAMES[i]; OPT = atoi(argv[2]); L = 3; NV = 2; setup(); snprintf(SP.prefix, sizeof SP.prefix, "listtblpair:%d:", OPT); sm_search(&SP, 0); return 0; }
    if (!strcmp(argv[1], "values")) { OPT = atoi(argv[2]); L = 3; NV = 2; setup(); run_values(); return 0; }
    if (!strcmp(argv[1], "multi")) { OPT = atoi(argv[2]); L = 3; NV = 2; setup(); run_multi(); return 0; }
    OPT = atoi(argv[1]); L = atoi(argv[2]); NV = atoi(argv[3]);
    if (argc >= 9 && !strcmp(argv[4], "hist")) sm_hist_mode = 1;
    setup();
    if (argc >= 9 && !strcmp(argv[4], "hist")) {   /* listtbl <opt> <L> <NV> hist <n> <depth> <shard> <nshards>: unmerged histories from a table of n entries */
        int n = atoi(argv[5]); uint16_t seed[8];
        for (int i = 0; i < n && i < 8; i++) for (int o = 0; o < NOPS; o++) if (OPS[o].kind == OP_PUT && OPS[o].k == (i * 2) % 3 && OPS[o].v == i % NV) seed[i] = (uint16_t)o;
        return sm_histories(&SP, seed, n, atoi(argv[6]), atol(argv[7]), atol(argv[8]));
    }
    sm_search(&SP, 0);
    vc_stat_add("saveload_roundtrips", n_saveload);
    return 0;
}
int main(int argc, char **argv) { return vc_main(argc, argv, worker); }
