/* tree.c - E1 explicit-state search over qtreetbl histories (C01 C02 C03 C04, with the C11/C12 oracles).
 *   tree map  <cfg 0..3> <U> <NV>                 put/remove/clear closure, sorted-map + LLRB oracles
 *   tree walk <U> <maxdepth|0> <startepoch>       put/remove/walks/abandoned walks/nearest searches, traversal oracles
 * State = operation history replayed on a fresh table; visited set keyed by a canonical string.
 */
#include "vc.h"
#include "vc_alloc.h"
#include "bfs.h"
#include <setjmp.h>
#include "qlibc.h"

/* ------------------------------------------------------------------ universe */
#define MAXU 16
typedef struct { unsigned char b[8]; size_t n; } blob_t;
static blob_t KEY[MAXU]; static int U, NV, CFG;
static int ORDER[MAXU];            /* universe indices in ascending order under the table's ordering */
static const blob_t VAL[4] = {{{'v'}, 1}, {{'w', 0, 'z', 0}, 4}, {{0}, 0}, {{'w', 0, 'y', 0}, 4}};   /* v2 = empty value (NULL, 0); v3 = same length as v1, equal up to a NUL byte */

static const char *STRKEYS[] = {"d", "b", "f", "a", "c", "e", "g", "ab", "ba", "h", "ca", "i", "j", "k", "l", "m"};
static const blob_t BINKEYS[] = {{{0x80}, 1}, {{0x01}, 1}, {{0xff}, 1}, {{0x00}, 1}, {{0x00, 0x00}, 2}, {{0x00, 0x01}, 2}, {{0xff, 0x00}, 2}, {{0x7f}, 1},
                                 {{0x01, 0x00}, 2}, {{0x80, 0x80}, 2}, {{0xfe}, 1}, {{0x00, 0xff}, 2}, {{0xff, 0xff}, 2}, {{0x00, 0x00, 0x00}, 3}, {{0x02}, 1}, {{0x03}, 1}};
static const char *LENKEYS[] = {"bb", "a", "ccc", "b", "aa", "c", "ab", "aaa", "d", "ba", "aab", "e", "ca", "aba", "f", "cb"};

/* reference ordering, written independently of qtreetbl_byte_cmp */
static int ref_bytes(const unsigned char *a, size_t an, const unsigned char *b, size_t bn) {
    for (size_t i = 0; i < an && i < bn; i++) if (a[i] != b[i]) return a[i] < b[i] ? -1 : 1;
    return an == bn ? 0 : an < bn ? -1 : 1;
}
static int refcmp(const unsigned char *a, size_t an, const unsigned char *b, size_t bn) {
    switch (CFG) {
        case 2: return -ref_bytes(a, an, b, bn);
        case 3: return an != bn ? (an < bn ? -1 : 1) : ref_bytes(a, an, b, bn);
        default: return ref_bytes(a, an, b, bn);
    }
}
/* user comparators handed to the library (cfg 2, 3 and walk mode); they count invocations */
static long ncmp, cmp_budget; static jmp_buf cmp_jb; static int cmp_armed;
static int user_cmp(const void *a, size_t an, const void *b, size_t bn) {
    ncmp++;
    if (cmp_armed && ncmp > cmp_budget) longjmp(cmp_jb, 1);
    return refcmp(a, an, b, bn);
}
static void setup_universe(void) {
    for (int i = 0; i < U; i++) {
        if (CFG == 1 || CFG == 2) KEY[i] = BINKEYS[i];
        else { const char *s = CFG == 3 ? LENKEYS[i] : STRKEYS[i]; KEY[i].n = strlen(s) + 1; memcpy(KEY[i].b, s, KEY[i].n); }
        ORDER[i] = i;
    }
    for (int i = 0; i < U; i++) for (int j = i + 1; j < U; j++)
        if (refcmp(KEY[ORDER[i]].b, KEY[ORDER[i]].n, KEY[ORDER[j]].b, KEY[ORDER[j]].n) > 0) { int t = ORDER[i]; ORDER[i] = ORDER[j]; ORDER[j] = t; }
}
static int keyid(const void *name, size_t n) { for (int i = 0; i < U; i++) if (KEY[i].n == n && !memcmp(KEY[i].b, name, n)) return i; return -1; }

/* ------------------------------------------------------------------ model */
typedef struct { int present[MAXU]; int val[MAXU]; int unfinished; } model_t;
static int m_count(const model_t *m) { int c = 0; for (int i = 0; i < U; i++) c += m->present[i]; return c; }

/* ------------------------------------------------------------------ caller-side buffers (ownership oracle) */
static void *fresh(const void *p, size_t n) { if (n == 0) return NULL; void *q = malloc(n); memcpy(q, p, n); return q; }
static void scribble(void *p, size_t n) { if (p) { memset(p, 0xA5, n); free(p); } }
typedef struct { void *p; unsigned char exp[8]; size_t n; const char *what; } held_t;
static held_t HELD[256]; static int nheld; static long n_copies_checked, n_scribbled, n_soft;
static void hold(void *p, const void *exp, size_t n, const char *what) {
    if (!p) return;
    if (nheld >= 256) { free(p); return; }
    HELD[nheld].p = p; HELD[nheld].n = n; HELD[nheld].what = what; memcpy(HELD[nheld].exp, exp, n < 8 ? n : 8); nheld++;
}
static void verify_held(const char *when) {
    for (int i = 0; i < nheld; i++) { n_copies_checked++; if (memcmp(HELD[i].p, HELD[i].exp, HELD[i].n < 8 ? HELD[i].n : 8)) { n_soft++; vc_viol("ownership:copy-changed", "copy returned by %s changed %s", HELD[i].what, when); } }
}
static void release_held(void) { for (int i = 0; i < nheld; i++) free(HELD[i].p); nheld = 0; }

/* ------------------------------------------------------------------ independent structure checker */
static int chk_count; static const char *chk_err;
static int chk_rec(qtreetbl_obj_t *o, const qtreetbl_obj_t *lo, const qtreetbl_obj_t *hi, int parent_red) {
    if (!o) return 1;
    chk_count++;
    if (chk_count > 4 * MAXU) { chk_err = "cycle"; return -1; }
    if (lo && refcmp(lo->name, lo->namesize, o->name, o->namesize) >= 0) chk_err = "order";
    if (hi && refcmp(o->name, o->namesize, hi->name, hi->namesize) >= 0) chk_err = "order";
    if (o->red && parent_red) chk_err = "red-red";
    int rl = o->left && o->left->red, rr = o->right && o->right->red;
    if (rr && !rl) chk_err = "right-leaning";
    int bl = chk_rec(o->left, lo, o, o->red), br = chk_rec(o->right, o, hi, o->red);
    if (bl < 0 || br < 0) return -1;
    if (bl != br && !chk_err) chk_err = "black-height";
    return bl + (o->red ? 0 : 1);
}
static long n_struct_checks, n_fournode_states;
static int has_fournode(qtreetbl_obj_t *o) { if (!o) return 0; if (o->left && o->left->red && o->right && o->right->red) return 1; return has_fournode(o->left) || has_fournode(o->right); }
static void check_structure(qtreetbl_t *t, const model_t *m, const char *after) {
    n_struct_checks++;
    chk_count = 0; chk_err = NULL;
    if (t->root && t->root->red) chk_err = "red-root";
    chk_rec(t->root, NULL, NULL, 0);
    int lib = qtreetbl_check(t);
    if (chk_err) vc_viol("llrb:invariant", "after %s: tree violates '%s' (qtreetbl_check()=%d)", after, chk_err, lib);
    else if (lib != 0) vc_viol("llrb:selfcheck-disagrees", "after %s: qtreetbl_check() = %d on a tree the independent checker accepts", after, lib);
    if (!chk_err && chk_count != (int)t->size(t)) vc_viol("llrb:node-count", "after %s: %d nodes reachable, size() = %zu", after, chk_count, t->size(t));
    if ((int)t->size(t) != m_count(m)) vc_viol("map:size", "after %s: size() = %zu, %d distinct keys stored", after, t->size(t), m_count(m));
    n_fournode_states += has_fournode(t->root);
}

/* ------------------------------------------------------------------ canonical keys */
static char *canon_rec(qtreetbl_obj_t *o, char *p, int withwalk, qtreetbl_obj_t **live, int nlive, int depth) {
    if (!o) { *p++ = '.'; return p; }
    if (depth > 2 * MAXU) { *p++ = '!'; return p; }
    *p++ = '(';
    p = canon_rec(o->left, p, withwalk, live, nlive, depth + 1);
    int k = keyid(o->name, o->namesize);
    *p++ = (o->red ? 'A' : 'a') + (k < 0 ? 25 : k);
    int v = -1; for (int i = 0; i < 4; i++) if (o->datasize == VAL[i].n && (o->datasize == 0 || !memcmp(o->data, VAL[i].b, o->datasize))) v = i;
    *p++ = '0' + (v < 0 ? 9 : v);
    if (withwalk) {
        p += sprintf(p, "t%d", o->tid);
        char nx = '-';
        if (o->next) { nx = 'D'; for (int i = 0; i < nlive; i++) if (live[i] == o->next) { nx = 'a' + keyid(o->next->name, o->next->namesize); break; } }
        *p++ = 'n'; *p++ = nx;
    }
    p = canon_rec(o->right, p, withwalk, live, nlive, depth + 1);
    *p++ = ')';
    return p;
}
static int collect(qtreetbl_obj_t *o, qtreetbl_obj_t **live, int n) { if (!o || n >= 4 * MAXU) return n; live[n++] = o; n = collect(o->left, live, n); return collect(o->right, live, n); }
static void canon(qtreetbl_t *t, const model_t *m, int withwalk, char *out) {
    qtreetbl_obj_t *live[4 * MAXU + 4]; int nlive = withwalk ? collect(t->root, live, 0) : 0;
    char *p = out;
    if (withwalk) p += sprintf(p, "%d:%d:", t->tid, m->unfinished);
    p = canon_rec(t->root, p, withwalk, live, nlive, 0); *p = 0;
}

/* ------------------------------------------------------------------ operations */
enum { OP_PUT, OP_REMOVE, OP_CLEAR, OP_WALK, OP_ABANDON, OP_NEAREST, OP_NEARWALK, OP_CYCLE, OP_WALKREMOVE, OP_PUTALIAS, OP_PUTHUGE, OP_GET };
static int HIST_MODE;   /* histories without merging: see hist_rec below */
typedef struct { int kind, k, v, j, nm; const char *label; } op_t;
static op_t OPS[512]; static int NOPS; static int MODE_WALK, WITH_CYCLES;
static blob_t PROBE[2 * MAXU + 2]; static int NPROBE;

static int is_strcfg(void) { return CFG == 0 || CFG == 3; }
static long n_lookup_cmp_checks;

/* full observation of the map: every key of the universe, size, min, max */
static void do_walk(qtreetbl_t *t, model_t *m, int newmem, int check, const char *after);
static void observe_map(qtreetbl_t *t, const model_t *m, const char *after) {
    int n = m_count(m);
    /* invalid arguments are refused with EINVAL; they run first so that any effect they had is seen below */
    errno = 0; if (t->getobj(t, NULL, 1, NULL, false) != NULL || errno != EINVAL) vc_viol("map:einval", "getobj(NULL name) not refused with EINVAL");
    for (int i = 0; i < U; i += 3) { errno = 0; if (t->putobj(t, KEY[i].b, 0, "y", 1) != false || errno != EINVAL) vc_viol("map:einval", "putobj(namesize 0) not refused with EINVAL"); }
    errno = 0; if (t->putobj(t, NULL, 3, "y", 1) != false || errno != EINVAL) vc_viol("map:einval", "putobj(NULL name) not refused with EINVAL");
    errno = 0; if (t->removeobj(t, NULL, 2) != false || errno != EINVAL) vc_viol("map:einval", "removeobj(NULL name) not refused with EINVAL");
    for (int i = 0; i < U; i++) for (int nm = 0; nm < 2; nm++) {
        void *kb = fresh(KEY[i].b, KEY[i].n);
        size_t sz = 12345; errno = 0; ncmp = 0;
        void *d = is_strcfg() ? t->get(t, kb, &sz, nm) : t->getobj(t, kb, KEY[i].n, &sz, nm);
        int e = errno;
        scribble(kb, KEY[i].n); n_scribbled++;
        if (CFG >= 2 && n > 0) {   /* user comparator counts: lookup cost <= 2*log2(n+1) */
            n_lookup_cmp_checks++;
            double bound = 2.0 * __builtin_log2((double)(n + 1));
            if ((double)ncmp > bound + 1e-9) vc_viol("llrb:lookup-cost", "after %s: lookup among %d keys took %ld comparisons (> 2*log2(n+1) = %.2f)", after, n, ncmp, bound);
        }
        if (!m->present[i]) {
            if (d != NULL) vc_viol("map:get-absent", "after %s: get of absent key %d returned data", after, i);
            else if (e != ENOENT) vc_viol("map:get-errno", "after %s: get of absent key %d sets errno %d, not ENOENT", after, i, e);
        } else {
            const blob_t *v = &VAL[m->val[i]];
            if (v->n == 0) { if (d != NULL) vc_viol("map:get-value", "after %s: key %d holds an empty value but get returned data", after, i); else if (e == ENOENT) vc_viol("map:get-present-enoent", "after %s: key %d is stored (empty value) but get reports ENOENT", after, i); }
            else if (d == NULL) vc_viol("map:get-missing", "after %s: get of stored key %d returned NULL (errno %d)", after, i, e);
            else if (sz != v->n || memcmp(d, v->b, v->n)) vc_viol("map:get-value", "after %s: key %d returns %zu bytes, expected value version %d (%zu bytes)", after, i, sz, m->val[i], v->n);
            if (d && nm) hold(d, v->b, v->n, "get(newmem)");
        }
    }
    /* optional out-parameters omitted: same answers */
    { int any = m_count(m) > 0; void *a = t->find_min(t, NULL), *b = t->find_max(t, NULL); if ((a != NULL) != any || (b != NULL) != any) vc_viol("map:null-size-pointer", "after %s: find_min/find_max without a size pointer disagree with the map", after); free(a); free(b);
      for (int i = 0; i < U; i++) { void *d = is_strcfg() ? t->get(t, (const char *)KEY[i].b, NULL, false) : t->getobj(t, KEY[i].b, KEY[i].n, NULL, false); int want = m->present[i] && VAL[m->val[i]].n; if ((d != NULL) != want) vc_viol("map:null-size-pointer", "after %s: get of key %d without a size pointer disagrees with the map", after, i); } }
    /* find_min / find_max */
    for (int mx = 0; mx < 2; mx++) {
        size_t ns = 777; errno = 0;
        void *nmp = mx ? t->find_max(t, &ns) : t->find_min(t, &ns);
        int want = -1;
        for (int r = 0; r < U; r++) { int i = ORDER[mx ? U - 1 - r : r]; if (m->present[i]) { want = i; break; } }
        if (want < 0) { if (nmp) vc_viol("map:minmax-empty", "after %s: find_%s on an empty table returned a key", after, mx ? "max" : "min"); else if (errno != ENOENT) vc_viol("map:minmax-errno", "after %s: find_%s on empty table: errno %d", after, mx ? "max" : "min", errno); }
        else if (!nmp) vc_viol("map:minmax-null", "after %s: find_%s returned NULL", after, mx ? "max" : "min");
        else if (ns != KEY[want].n || memcmp(nmp, KEY[want].b, ns)) vc_viol("map:minmax-key", "after %s: find_%s returned the wrong key (expected universe key %d)", after, mx ? "max" : "min", want);
        if (nmp) hold(nmp, KEY[want < 0 ? 0 : want].b, want < 0 ? 0 : KEY[want].n, "find_min/max");
    }
}

/* copies taken BEFORE the operation under test: they must survive replacement / removal / clear of their element */
static void precopy_map(qtreetbl_t *t, const model_t *m) {
    for (int i = 0; i < U; i++) if (m->present[i] && VAL[m->val[i]].n) {
        size_t sz = 0; void *d = is_strcfg() ? t->get(t, (const char *)KEY[i].b, &sz, true) : t->getobj(t, KEY[i].b, KEY[i].n, &sz, true);
        if (d) hold(d, VAL[m->val[i]].b, VAL[m->val[i]].n, "get(newmem) taken before the operation");
    }
}
/* walk oracle: complete walk from a zeroed cursor must produce exactly the model's sorted entries */
static void do_walk(qtreetbl_t *t, model_t *m, int newmem, int check, const char *after) {
    qtreetbl_obj_t ob; memset(&ob, 0, sizeof ob);
    int r = 0, steps = 0, n = m_count(m), bad = 0;
    while (t->getnext(t, &ob, newmem)) {
        if (++steps > n + 2) { if (check) vc_viol("walk:endless", "%s: walk returned more than %d entries", after, n + 2); bad = 1; if (newmem) { free(ob.name); free(ob.data); } break; }
        if (check && !bad) {
            while (r < U && !m->present[ORDER[r]]) r++;
            int want = r < U ? ORDER[r] : -1;
            int got = ob.name ? keyid(ob.name, ob.namesize) : -1;
            if (want < 0 || got != want) { vc_viol("walk:sequence", "%s: walk step %d returned universe key %d, expected %d", after, steps, got, want); bad = 1; }
            else {
                const blob_t *v = &VAL[m->val[want]];
                if (ob.datasize != v->n || (v->n && (!ob.data || memcmp(ob.data, v->b, v->n)))) { vc_viol("walk:value", "%s: walk step %d (key %d) carries the wrong value/size", after, steps, want); bad = 1; }
            }
            r++;
        }
        if (newmem) { if (ob.name) hold(ob.name, ob.name, ob.namesize < 8 ? ob.namesize : 8, "getnext(newmem) name"); if (ob.data) hold(ob.data, ob.data, ob.datasize < 8 ? ob.datasize : 8, "getnext(newmem) data"); }
    }
    if (check && !bad) { while (r < U && !m->present[ORDER[r]]) r++; if (r < U) vc_viol("walk:missed", "%s: walk ended after %d entries, universe key %d never returned", after, steps, ORDER[r]); }
    m->unfinished = 0;
}
static void do_abandon(qtreetbl_t *t, model_t *m, int j) {
    qtreetbl_obj_t ob; memset(&ob, 0, sizeof ob); int c = 0;
    while (c < j && t->getnext(t, &ob, false)) c++;
    m->unfinished = (c == j);
}
/* the documented "removal example in iteration loop": walk; for the j-th element (j = 0: for every element) keep a copy of
 * the name, removeobj, rewind with find_nearest. A modified table need not be swept completely (C03 does not apply), but the
 * loop must end, touch no freed node, return only keys that are stored at that moment, and remove exactly what it was told */
static long n_walkrm;
static void do_walkremove(qtreetbl_t *t, model_t *m, int j, int check, const char *after) {
    qtreetbl_obj_t ob; memset(&ob, 0, sizeof ob);
    int steps = 0, n0 = m_count(m);
    while (t->getnext(t, &ob, false)) {
        if (++steps > 3 * (n0 + 2)) { if (check) vc_viol("walkrm:endless", "%s: removal loop returned more than %d entries from %d keys", after, steps, n0); break; }
        int id = ob.name ? keyid(ob.name, ob.namesize) : -1;
        if (id < 0 || !m->present[id]) { if (check) vc_viol("walkrm:foreign-key", "%s: step %d of the removal loop returned a key that is not stored", after, steps); break; }
        if (j == 0 || steps == j) {
            size_t ns = ob.namesize; void *name = malloc(ns); memcpy(name, ob.name, ns);
            bool r = t->removeobj(t, ob.name, ob.namesize);
            if (check && !r) vc_viol("walkrm:remove-failed", "%s: removeobj of the element just returned failed", after);
            m->present[id] = 0;
            ob = t->find_nearest(t, name, ns, false);
            memset(name, 0xA5, ns); free(name);
            if (check) n_walkrm++;
        }
    }
    m->unfinished = 0;
}
/* nearest: returns -1 if the search did not terminate */
static int do_nearest(qtreetbl_t *t, model_t *m, int p, int cont, int newmem, int check, const char *after) {
    int n = m_count(m);
    void *kb = fresh(PROBE[p].b, PROBE[p].n);
    qtreetbl_obj_t ob;
    ncmp = 0; cmp_budget = 8 * (n + 2); cmp_armed = 1;
    if (setjmp(cmp_jb) == 0) { errno = 0; ob = t->find_nearest(t, kb, PROBE[p].n, newmem); cmp_armed = 0; }
    else { cmp_armed = 0; if (check) vc_viol("nearest:nontermination", "%s: find_nearest made more than %ld comparisons on %d keys", after, cmp_budget, n); return -1; }
    int e = errno;
    scribble(kb, PROBE[p].n);
    if (check) {
        int want = -1;
        for (int r = 0; r < U; r++) { int i = ORDER[r]; if (m->present[i] && refcmp(KEY[i].b, KEY[i].n, PROBE[p].b, PROBE[p].n) <= 0) want = i; }
        if (want < 0) for (int r = 0; r < U; r++) if (m->present[ORDER[r]]) { want = ORDER[r]; break; }
        if (want < 0) { if (ob.name != NULL) vc_viol("nearest:nonempty-on-empty", "%s: find_nearest on an empty table returned a key", after); else if (e != ENOENT) vc_viol("nearest:errno", "%s: empty table: errno %d, not ENOENT", after, e); }
        else if (!ob.name) vc_viol("nearest:null", "%s: find_nearest returned nothing, expected universe key %d", after, want);
        else {
            int got = keyid(ob.name, ob.namesize);
            if (got != want) vc_viol("nearest:wrong-key", "%s: probe %d: find_nearest returned universe key %d, expected %d (floor, else smallest)", after, p, got, want);
            else { const blob_t *v = &VAL[m->val[want]]; if (ob.datasize != v->n || (v->n && memcmp(ob.data, v->b, v->n))) vc_viol("nearest:value", "%s: wrong value for key %d", after, want); }
        }
    }
    if (newmem) { if (ob.name) hold(ob.name, ob.name, ob.namesize < 8 ? ob.namesize : 8, "find_nearest(newmem) name"); if (ob.data) hold(ob.data, ob.data, ob.datasize < 8 ? ob.datasize : 8, "find_nearest(newmem) data"); }
    if (cont && ob.next) {
        int seen[MAXU] = {0}, steps = 0, bad = 0;
        while (t->getnext(t, &ob, false)) {
            if (++steps > n + 2) { if (check) vc_viol("nearwalk:endless", "%s: getnext after find_nearest returned more than %d entries", after, n + 2); bad = 1; break; }
            int id = keyid(ob.name, ob.namesize);
            if (check && (id < 0 || !m->present[id])) { vc_viol("nearwalk:foreign-key", "%s: getnext returned a key that is not stored", after); bad = 1; break; }
            if (check && seen[id]) { vc_viol("nearwalk:key-twice", "%s: universe key %d visited twice", after, id); bad = 1; }
            if (id >= 0) seen[id] = 1;
        }
        if (check && !bad && !m->unfinished) for (int i = 0; i < U; i++) if (m->present[i] && !seen[i]) { vc_viol("nearwalk:missed", "%s: no walk was left unfinished, yet universe key %d was not visited", after, i); break; }
        m->unfinished = 0;
    }
    return 0;
}

/* apply one operation; check = compare return values with the model. returns -1 if the table must be abandoned */
static int apply(qtreetbl_t *t, model_t *m, const op_t *op, int check, const char *after) {
    switch (op->kind) {
        case OP_PUT: {
            void *kb = fresh(KEY[op->k].b, KEY[op->k].n), *vb = fresh(VAL[op->v].b, VAL[op->v].n);
            static char nothing[1];    /* the empty value comes as (NULL, 0) for even keys and as (pointer, 0) for odd ones */
            if (VAL[op->v].n == 0 && (op->k & 1)) vb = nothing;
            bool r = is_strcfg() ? t->put(t, kb, vb, VAL[op->v].n) : t->putobj(t, kb, KEY[op->k].n, vb, VAL[op->v].n);
            if (vb == nothing) vb = NULL;
            scribble(kb, KEY[op->k].n); scribble(vb, VAL[op->v].n); n_scribbled += 2;
            if (check && !r) vc_viol("map:put-failed", "%s: put returned false", after);
            m->present[op->k] = 1; m->val[op->k] = op->v;
            break;
        }
        case OP_REMOVE: {
            void *kb = fresh(KEY[op->k].b, KEY[op->k].n);
            errno = 0;
            bool r = is_strcfg() ? t->remove(t, kb) : t->removeobj(t, kb, KEY[op->k].n);
            int e = errno;
            scribble(kb, KEY[op->k].n); n_scribbled++;
            if (check && r != (bool)m->present[op->k]) vc_viol("map:remove-result", "%s: remove returned %d, key was %s", after, r, m->present[op->k] ? "present" : "absent");
            if (check && !m->present[op->k] && e != ENOENT) vc_viol("map:remove-errno", "%s: removing an absent key sets errno %d", after, e);
            m->present[op->k] = 0;
            break;
        }
        case OP_CLEAR: t->clear(t); memset(m->present, 0, sizeof m->present); break;
        case OP_WALK: do_walk(t, m, op->nm, check, after); break;
        case OP_ABANDON: do_abandon(t, m, op->j); break;
        case OP_CYCLE: for (int i = 0; i < op->j; i++) do_abandon(t, m, 1); break;   /* hundreds of traversal starts in one step */
        case OP_PUTALIAS: {   /* the value argument is the table's own buffer for that key (zero-copy get): the same value is put again */
            if (!m->present[op->k] || VAL[m->val[op->k]].n == 0) break;
            size_t sz = 0; void *d = is_strcfg() ? t->get(t, (const char *)KEY[op->k].b, &sz, false) : t->getobj(t, KEY[op->k].b, KEY[op->k].n, &sz, false);
            if (!d) break;
            bool r = is_strcfg() ? t->put(t, (const char *)KEY[op->k].b, d, sz) : t->putobj(t, KEY[op->k].b, KEY[op->k].n, d, sz);
            if (check && !r) vc_viol("map:put-failed", "%s: put of the table's own value buffer returned false", after);
            break;
        }
        case OP_PUTHUGE: {   /* a value size no allocator can satisfy: the put must fail (ENOMEM) and - like every failed operation - leave map and tree as they were */
            void *kb = fresh(KEY[op->k].b, KEY[op->k].n); static char one[1] = {'x'};
            errno = 0; bool r = is_strcfg() ? t->put(t, kb, one, SIZE_MAX / 2) : t->putobj(t, kb, KEY[op->k].n, one, SIZE_MAX / 2); int e = errno;
            scribble(kb, KEY[op->k].n); n_scribbled++;
            if (check && r) vc_viol("map:put-huge", "%s: put of a value of SIZE_MAX/2 bytes returned true", after);
            else if (check && e != ENOMEM) vc_viol("map:put-huge", "%s: put of a value of SIZE_MAX/2 bytes refused with errno %d, not ENOMEM", after, e);
            break;
        }
        case OP_GET: {   /* a read as an operation: nothing the model knows changes, whatever the implementation remembers between calls may */
            size_t sz = 4242; void *d = is_strcfg() ? t->get(t, (const char *)KEY[op->k].b, &sz, false) : t->getobj(t, KEY[op->k].b, KEY[op->k].n, &sz, false);
            if (check) { if (!m->present[op->k]) { if (d) vc_viol("map:get-absent", "%s: get of an absent key returned data", after); }
                         else if (VAL[m->val[op->k]].n == 0) { if (sz != 0) vc_viol("map:get-value", "%s: get of a key with an empty value reports %zu bytes", after, sz); }
                         else if (!d) vc_viol("map:get-missing", "%s: get of a stored key returned NULL", after);
                         else if (sz != VAL[m->val[op->k]].n || memcmp(d, VAL[m->val[op->k]].b, sz)) vc_viol("map:get-value", "%s: get returned %zu bytes that differ from the value last put", after, sz); }
            break;
        }
        case OP_WALKREMOVE: do_walkremove(t, m, op->j, check, after); break;
        case OP_NEAREST: return do_nearest(t, m, op->k, 0, op->nm, check, after);
        case OP_NEARWALK: return do_nearest(t, m, op->k, 1, op->nm, check, after);
    }
    return 0;
}

static void build_ops(void) {
    NOPS = 0;
    for (int k = 0; k < U; k++) for (int v = 0; v < NV; v++) OPS[NOPS++] = (op_t){OP_PUT, k, v, 0, 0, is_strcfg() ? "qtreetbl_put" : "qtreetbl_putobj"};
    for (int k = 0; k < U; k++) OPS[NOPS++] = (op_t){OP_REMOVE, k, 0, 0, 0, is_strcfg() ? "qtreetbl_remove" : "qtreetbl_removeobj"};
    if (!MODE_WALK) { OPS[NOPS++] = (op_t){OP_CLEAR, 0, 0, 0, 0, "qtreetbl_clear"}; if (NV > 1) for (int k = 0; k < U; k++) OPS[NOPS++] = (op_t){OP_PUTALIAS, k, 0, 0, 0, is_strcfg() ? "qtreetbl_put" : "qtreetbl_putobj"};
        for (int k = 0; k < U; k++) OPS[NOPS++] = (op_t){OP_PUTHUGE, k, 0, 0, 0, is_strcfg() ? "qtreetbl_put" : "qtreetbl_putobj"};
        if (HIST_MODE) for (int k = 0; k < U; k++) OPS[NOPS++] = (op_t){OP_GET, k, 0, 0, 0, is_strcfg() ? "qtreetbl_get" : "qtreetbl_getobj"};   /* in the closure a read is a self-loop that the observation already covers */
        return; }
    OPS[NOPS++] = (op_t){OP_CLEAR, 0, 0, 0, 0, "qtreetbl_clear"};     /* clear() keeps the traversal epoch machinery consistent as well */
    OPS[NOPS++] = (op_t){OP_WALK, 0, 0, 0, 0, "qtreetbl_getnext"};
    OPS[NOPS++] = (op_t){OP_WALK, 0, 0, 0, 1, "qtreetbl_getnext"};
    OPS[NOPS++] = (op_t){OP_ABANDON, 0, 0, 1, 0, "qtreetbl_getnext"};
    OPS[NOPS++] = (op_t){OP_ABANDON, 0, 0, 2, 0, "qtreetbl_getnext"};
    for (int j = 0; j <= 3; j++) OPS[NOPS++] = (op_t){OP_WALKREMOVE, 0, 0, j, 0, "qtreetbl_getnext"};
    /* depth-bounded runs only (in a closure they add no state): k one-step walks as one operation, k around a full
     * cycle of the 8-bit traversal epoch, so that "more than 256 traversal starts" is within reach of a short history */
    if (WITH_CYCLES) for (int k = 253; k <= 258; k++) OPS[NOPS++] = (op_t){OP_CYCLE, 0, 0, k, 0, "qtreetbl_getnext"};
    /* probes: below the minimum, every key, every gap / above the maximum */
    NPROBE = 0;
    if (CFG == 1) {   /* binary keys of differing lengths: every key, every key with a byte appended (just above it; the key is a strict prefix of the probe) and every key with its last byte cut off (the probe is a strict prefix of the key) */
        for (int r = 0; r < U; r++) { int i = ORDER[r]; PROBE[NPROBE++] = KEY[i]; blob_t g = KEY[i]; g.b[g.n++] = 0x00; PROBE[NPROBE++] = g; if (KEY[i].n > 1) { blob_t c = KEY[i]; c.n--; int dup = 0; for (int q = 0; q < NPROBE; q++) dup |= PROBE[q].n == c.n && !memcmp(PROBE[q].b, c.b, c.n); if (!dup) PROBE[NPROBE++] = c; } }
    } else {
    PROBE[NPROBE].n = 2; memcpy(PROBE[NPROBE].b, "A", 2); NPROBE++;
    for (int r = 0; r < U; r++) { int i = ORDER[r]; PROBE[NPROBE++] = KEY[i]; blob_t g = KEY[i]; g.b[g.n - 1] = '~'; g.b[g.n] = 0; g.n++; PROBE[NPROBE++] = g; }
    }
    for (int p = 0; p < NPROBE; p++) OPS[NOPS++] = (op_t){OP_NEAREST, p, 0, 0, p & 1, "qtreetbl_find_nearest"};
    for (int p = 0; p < NPROBE; p++) OPS[NOPS++] = (op_t){OP_NEARWALK, p, 0, 0, 0, "qtreetbl_find_nearest"};
}

/* ------------------------------------------------------------------ one transition */
static int START_EPOCH = 1;
static qtreetbl_t *new_table(model_t *m) {
    memset(m, 0, sizeof *m);
    qtreetbl_t *t = qtreetbl(0);
    if (!t) return NULL;
    if (CFG >= 2 || MODE_WALK) t->set_compare(t, user_cmp);
    if (MODE_WALK && START_EPOCH > 1) {
        /* reach the start epoch through the API only: one key, (epoch-1) one-step walks, remove it */
        op_t p = {OP_PUT, 0, 0, 0, 0, ""}, r = {OP_REMOVE, 0, 0, 0, 0, ""};
        apply(t, m, &p, 0, "");
        for (int i = 1; i < START_EPOCH; i++) do_abandon(t, m, 1);
        apply(t, m, &r, 0, ""); m->unfinished = 0;
    }
    return t;
}
static long n_trans, n_replays_checked;
/* executes hist[0..d) then op; fills canonical key; returns 0 ok, -1 dead (violation made the state unusable) */
static int transition(const uint16_t *hist, int d, int opi, char *ckey, int verbose) {
    long live0 = va_live;
    model_t m; qtreetbl_t *t = new_table(&m);
    char after[64];
    int dead = 0;
    for (int i = 0; i < d && !dead; i++) {
        if (verbose) { snprintf(after, sizeof after, "step %d (op %d)", i, hist[i]); if (apply(t, &m, &OPS[hist[i]], 1, after) < 0) dead = 1; if (!dead && !MODE_WALK) { check_structure(t, &m, after); observe_map(t, &m, after); } }
        else if (apply(t, &m, &OPS[hist[i]], 0, "") < 0) dead = 1;
    }
    if (!dead) {
        vc_asan_check();   /* reports raised by the history prefix belong to the transitions that ended in those ops */
        snprintf(after, sizeof after, "op %d", opi);
        vc_label(OPS[opi].label);
        if (!MODE_WALK && !HIST_MODE) precopy_map(t, &m);
        if (apply(t, &m, &OPS[opi], 1, after) < 0) dead = 1;
    }
    if (!dead) {
        { long w0 = vc_nviol; check_structure(t, &m, after); n_soft += vc_nviol - w0; }   /* shape findings (C02) do not prune the map/traversal search */
        if (!MODE_WALK) { observe_map(t, &m, after); if (NV > 1) { do_walk(t, &m, 0, 1, after); do_walk(t, &m, 1, 1, after); } }   /* values of different sizes: the walk reports the current value and sizes of every key (C03) */
        canon(t, &m, MODE_WALK, ckey);
        verify_held("while the container was still alive");
        t->free(t);
        verify_held("after the container was freed");
        release_held();
        if (va_live != live0) n_soft++;
        if (va_live != live0) vc_viol("leak:blocks", "after %s and free(): %ld blocks allocated by the table were never freed", after, va_live - live0);
    } else { release_held(); }   /* table abandoned on purpose (it may be corrupt) */
    const char *a = vc_asan_check();
    if (a) { char cls[160]; snprintf(cls, sizeof cls, "asan:%s:%s", a, OPS[opi].label); vc_viol(cls, "sanitizer report during op %d", opi); n_soft++; }
    n_trans++;
    return dead ? -1 : 0;
}

static int mkprefix(char *key, const uint16_t *hist, int d) {
    char *k = key;
    if (MODE_WALK && CFG == 1) k += sprintf(k, "walkb:%d:%d:", U, START_EPOCH); else if (MODE_WALK && CFG) k += sprintf(k, "walkc%d:%d:%d:", CFG, U, START_EPOCH); else if (MODE_WALK) k += sprintf(k, "walk:%d:%d:", U, START_EPOCH); else k += sprintf(k, "map:%d:%d:%d:", CFG, U, NV);
    for (int i = 0; i < d; i++) k += sprintf(k, "%d,", hist[i]);
    return k - key;
}

static int search(int maxdepth) {
    bfs_t b; bfs_init(&b);
    static uint16_t hist[4096]; static char key[VC_KEYMAX], ckey[1024], ckey2[1024];
    {   /* initial state */
        model_t m; qtreetbl_t *t = new_table(&m); canon(t, &m, MODE_WALK, ckey); t->free(t);
        bfs_visit(&b, ckey); bfs_push(&b, -1, 0, 0);
    }
    int complete = 1;
    while (b.head < b.nnodes) {
        long idx = b.head++;
        int d = bfs_history(&b, idx, hist);
        if (maxdepth > 0 && d >= maxdepth) continue;
        if (d >= 3000) { complete = 0; continue; }
        int plen = mkprefix(key, hist, d);
        if ((idx & 0xff) == 0 && vc_deadline_hit()) { complete = 0; break; }
        if (VC_ENOUGH_VIOLATIONS()) { complete = 0; break; }   /* enough counterexamples: do not explore the damaged state space to its end */
        for (int op = 0; op < NOPS; op++) {
            sprintf(key + plen, "%d", op);
            if (!vc_case(OPS[op].label, key)) continue;
            long v0 = vc_nviol - n_soft;
            int r = transition(hist, d, op, ckey, 0);
            if (r == 0 && vc_nviol - n_soft == v0) {
                if (bfs_visit(&b, ckey)) {
                    long ni = bfs_push(&b, idx, op, d + 1);
                    if ((ni % 1000) == 0) {   /* replay determinism: same history twice gives the same canonical state */
                        transition(hist, d, op, ckey2, 0); n_replays_checked++;
                        if (strcmp(ckey, ckey2)) { printf("NOTE\treplay divergence on %s\n", key); vc_stat_add("replay_divergence", 1); }
                    }
                    if (b.nnodes <= 3 || (b.nnodes % 50000) == 0) {
                        static const char *KN[] = {"put", "remove", "clear", "walk", "abandon-after", "nearest", "nearest+walk", "one-step-walks x", "walk-removing-element", "put-own-value", "put-unallocatable", "get"};
                        char txt[700], *q = txt; int shown = d > 12 ? 12 : d;
                        if (d > shown) q += sprintf(q, "... (%d earlier ops) ", d - shown);
                        for (int i = d - shown; i <= d && q - txt < 600; i++) { const op_t *o = &OPS[i < d ? hist[i] : op]; q += snprintf(q, 48, "%s(%d%s) ", KN[o->kind], o->kind == OP_ABANDON || o->kind == OP_CYCLE || o->kind == OP_WALKREMOVE ? o->j : o->k, o->kind == OP_PUT ? (o->v == 0 ? ",v0" : o->v == 1 ? ",v1" : o->v == 3 ? ",v1twin" : ",empty") : ""); }
                        vc_sample("history [%s] -> state %s", txt, ckey);
                    }
                }
            }   /* a functional violation: the successor is not expanded (model and table have diverged) */
            vc_case_end();
        }
    }
    vc_stat_add("states", b.nkeys);
    vc_stat_add("transitions", n_trans - n_replays_checked);
    vc_stat_add("max_depth", b.max_depth); vc_stat_add("removals_inside_walks", n_walkrm);
    vc_stat_add("structure_checks", n_struct_checks);
    vc_stat_add("fournode_states", n_fournode_states);
    vc_stat_add("copies_verified", n_copies_checked);
    vc_stat_add("inputs_scribbled", n_scribbled);
    vc_stat_add("lookup_cost_checks", n_lookup_cmp_checks);
    vc_stat_add("replays_checked", n_replays_checked);
    extern uint32_t _q_treetbl_flip_color_cnt, _q_treetbl_rotate_left_cnt, _q_treetbl_rotate_right_cnt;
    vc_stat_add("rotate_left", _q_treetbl_rotate_left_cnt); vc_stat_add("rotate_right", _q_treetbl_rotate_right_cnt); vc_stat_add("flip_color", _q_treetbl_flip_color_cnt);
    bfs_free(&b);
    return complete ? 0 : 2;
}

/* Histories without merging (map mode): the search above merges histories with equal canonical keys, which hides state the key cannot know about (a
 * remembered node, a cache a later version may add). From a table holding the first n keys, every sequence of <= depth operations - reads included - is
 * run; the last operation of each with all oracles. */
static long n_hist;
static void hist_rec(uint16_t *hist, int d, int left, long shard, long nshards, int top) {
    static char key[VC_KEYMAX], ckey[1024];
    for (int op = 0; op < NOPS; op++) {
        if (top && nshards > 1 && op % nshards != shard) continue;
        if (vc_deadline_hit() || VC_ENOUGH_VIOLATIONS()) { vc_exhaustive = 0; return; }
        int n = mkprefix(key, hist, d); sprintf(key + n, "%d", op);
        if (!vc_case(OPS[op].label, key)) continue;
        long v0 = vc_nviol - n_soft;
        int r = transition(hist, d, op, ckey, 0);
        vc_case_end();
        n_hist++;
        if (r == 0 && vc_nviol - n_soft == v0 && left > 1) { hist[d] = (uint16_t)op; hist_rec(hist, d + 1, left - 1, shard, nshards, 0); }
    }
}
static int replay(const char *key) {
    /* map:cfg:U:NV:ops  |  walk:U:epoch:ops */
    const char *p;
    if (!strncmp(key, "map:", 4)) { MODE_WALK = 0; int off; sscanf(key + 4, "%d:%d:%d:%n", &CFG, &U, &NV, &off); p = key + 4 + off; }
    else if (!strncmp(key, "walkc", 5)) { MODE_WALK = 1; NV = 1; int off; sscanf(key + 5, "%d:%d:%d:%n", &CFG, &U, &START_EPOCH, &off); p = key + 5 + off; WITH_CYCLES = 0; }
    else if (!strncmp(key, "walkb:", 6)) { MODE_WALK = 1; CFG = 1; NV = 1; int off; sscanf(key + 6, "%d:%d:%n", &U, &START_EPOCH, &off); p = key + 6 + off; WITH_CYCLES = 0; }
    else if (!strncmp(key, "walk:", 5)) { MODE_WALK = 1; CFG = 0; NV = 1; int off; sscanf(key + 5, "%d:%d:%n", &U, &START_EPOCH, &off); p = key + 5 + off; WITH_CYCLES = U >= 3; }
    else return 1;
    setup_universe(); build_ops();
    static uint16_t hist[4096]; int d = 0;
    while (*p) { hist[d++] = atoi(p); p = strchr(p, ','); if (!p) break; p++; }
    static char ckey[1024];
    vc_case("replay", key);
    vc_viol_print_per_class = 5;
    transition(hist, d - 1, hist[d - 1], ckey, HIST_MODE ? 0 : 1);
    printf("NOTE\tfinal state %s\n", ckey);
    return 0;
}

static int worker(int argc, char **argv) {
    if (argc >= 6 && !strcmp(argv[5], "hist")) HIST_MODE = 1;
    if (vc_replay_key) return replay(vc_replay_key);
    if (argc < 5) return 1;
    int maxdepth = 0;
    if (!strcmp(argv[1], "map")) { MODE_WALK = 0; CFG = atoi(argv[2]); U = atoi(argv[3]); NV = atoi(argv[4]); }
    else { MODE_WALK = 1; CFG = argc > 5 ? atoi(argv[5]) : 0; NV = 1; U = atoi(argv[2]); maxdepth = atoi(argv[3]); START_EPOCH = atoi(argv[4]); WITH_CYCLES = maxdepth > 0 && CFG == 0; }
    setup_universe(); build_ops();
    if (!MODE_WALK && argc >= 10 && !strcmp(argv[5], "hist")) {   /* tree map <cfg> <U> <NV> hist <n> <depth> <shard> <nshards> */
        HIST_MODE = 1; static uint16_t hist[4096]; int n = atoi(argv[6]);
        for (int i = 0; i < n; i++) { int k = (i * 3 + 1) % U; for (int o = 0; o < NOPS; o++) if (OPS[o].kind == OP_PUT && OPS[o].k == k && OPS[o].v == i % NV) hist[i] = (uint16_t)o; }
        hist_rec(hist, n, atoi(argv[7]), atol(argv[8]), atol(argv[9]), 1);
        vc_stat_add("states", n_hist); vc_stat_add("transitions", n_trans); vc_stat_add("histories_without_merging", n_hist); vc_stat_add("structure_checks", n_struct_checks); vc_stat_add("copies_verified", n_copies_checked); vc_stat_add("inputs_scribbled", n_scribbled);
        return 0;
    }
    int rc = search(maxdepth);
    if (rc == 2) vc_exhaustive = 0;
    return 0;
}
int main(int argc, char **argv) { return vc_main(argc, argv, worker); }
