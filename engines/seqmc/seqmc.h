/* seqmc.h - shared driver of the explicit-state searches over container histories (E1).
 * A harness provides: number of ops, label per op, and transition(hist, d, op, ckey, verbose) which replays the
 * history on a fresh object, applies op with all oracles, and returns the canonical key of the successor.
 * Included after vc.h and vc_alloc.h. */
#ifndef SEQMC_H
#define SEQMC_H
#include "bfs.h"

/* ---- caller-side buffers: the ownership oracle (C12) ---- */
static long sm_copies_checked, sm_scribbled, sm_soft;   /* sm_soft: violations that do not invalidate the successor state */
static void *sm_fresh(const void *p, size_t n) { if (n == 0 || !p) return NULL; void *q = malloc(n); memcpy(q, p, n); return q; }
static void sm_scribble(void *p, size_t n) { if (p) { memset(p, 0xA5, n); free(p); sm_scribbled++; } }
typedef struct { void *p; unsigned char exp[16]; size_t n; const char *what; } sm_held_t;
static sm_held_t SM_HELD[1024]; static int sm_nheld;
/* park a returned copy with its expected first bytes; it is re-verified later and freed by the harness */
static void sm_hold(void *p, const void *exp, size_t n, const char *what) {
    if (!p) return;
    if (sm_nheld >= 1024) { free(p); return; }
    SM_HELD[sm_nheld].p = p; SM_HELD[sm_nheld].n = n < 16 ? n : 16; SM_HELD[sm_nheld].what = what; memcpy(SM_HELD[sm_nheld].exp, exp, SM_HELD[sm_nheld].n); sm_nheld++;
}
static void sm_verify_held(const char *when) {
    for (int i = 0; i < sm_nheld; i++) { sm_copies_checked++; if (memcmp(SM_HELD[i].p, SM_HELD[i].exp, SM_HELD[i].n)) { sm_soft++; vc_viol("ownership:copy-changed", "copy returned by %s changed %s", SM_HELD[i].what, when); } }
}
static void sm_release_held(void) { for (int i = 0; i < sm_nheld; i++) free(SM_HELD[i].p); sm_nheld = 0; }
static void sm_asan(const char *label) {
    const char *a = vc_asan_check();
    if (a) { char cls[160]; snprintf(cls, sizeof cls, "asan:%s:%s", a, label); sm_soft++; vc_viol(cls, "sanitizer report inside %s", label); }
}
static void sm_leakcheck(long live0, const char *after) {
    if (va_live != live0) { sm_soft++; vc_viol("leak:blocks", "after %s and free(): %ld blocks allocated by the container were never freed", after, va_live - live0); }
}

typedef struct {
    char prefix[128];
    int nops;
    const char *(*label)(int op);
    /* 0 ok (ckey filled), 1 op disabled in this state, -1 object abandoned */
    int (*transition)(const uint16_t *hist, int d, int op, char *ckey, int verbose);
    void (*initial)(char *ckey);
} sm_spec_t;

static long sm_trans, sm_replays;
static int sm_search(sm_spec_t *sp, int maxdepth) {
    bfs_t b; bfs_init(&b);
    static uint16_t hist[4096]; static char key[VC_KEYMAX], ckey[4096], ckey2[4096];
    sp->initial(ckey); bfs_visit(&b, ckey); bfs_push(&b, -1, 0, 0);
    int complete = 1;
    while (b.head < b.nnodes) {
        long idx = b.head++;
        int d = bfs_history(&b, idx, hist);
        if (maxdepth > 0 && d >= maxdepth) continue;
        if (d >= 3000) { complete = 0; continue; }
        if ((idx & 0xff) == 0 && vc_deadline_hit()) { complete = 0; break; }
        if (VC_ENOUGH_VIOLATIONS()) { complete = 0; break; }   /* enough counterexamples: do not explore the damaged state space to its end */
        char *k = key; k += sprintf(k, "%s", sp->prefix);
        for (int i = 0; i < d; i++) k += sprintf(k, "%d,", hist[i]);
        for (int op = 0; op < sp->nops; op++) {
            sprintf(k, "%d", op);
            if (!vc_case(sp->label(op), key)) continue;
            long v0 = vc_nviol - sm_soft;
            int r = sp->transition(hist, d, op, ckey, 0);
            if (r == 1) { vc_case_end(); continue; }
            sm_trans++;
            if (r == 0 && vc_nviol - sm_soft == v0 && bfs_visit(&b, ckey)) {
                long ni = bfs_push(&b, idx, op, d + 1);
                if ((ni % 1000) == 0) {   /* replay determinism */
                    sp->transition(hist, d, op, ckey2, 0); sm_replays++;
                    if (strcmp(ckey, ckey2)) { printf("NOTE\treplay divergence on %s\n", key); vc_stat_add("replay_divergence", 1); }
                }
                if (b.nnodes <= 3 || (b.nnodes % 50000) == 0) {   /* a readable rendering of the history next to its replay key */
                    char txt[600], *q = txt; for (int i = 0; i < d && q - txt < 500; i++) q += snprintf(q, 60, "%s#%d ", sp->label(hist[i]), hist[i]); snprintf(q, 60, "%s#%d", sp->label(op), op);
                    vc_sample("history [%s] (replay key %s) -> state %s", txt, strlen(key) > 120 ? "..." : key, ckey);
                }
            }
            vc_case_end();
        }
    }
    vc_stat_add("states", b.nkeys);
    vc_stat_add("transitions", sm_trans);
    vc_stat_add("max_depth", b.max_depth);
    vc_stat_add("copies_verified", sm_copies_checked);
    vc_stat_add("inputs_scribbled", sm_scribbled);
    vc_stat_add("replays_checked", sm_replays);
    bfs_free(&b);
    if (!complete) vc_exhaustive = 0;
    return 0;
}
/* Depth-bounded enumeration of histories WITHOUT merging states. The breadth-first search above merges two histories whose canonical keys are
 * equal; that is sound for the fields the key contains, but a field the harness has never heard of (a lookup cache, a remembered position - hidden
 * state a later version may add) makes such histories differ. From a seed history (a non-initial state) every sequence of <= depth further operations
 * of the alphabet - reads included - is run, the last operation of each one with all oracles. */
static int sm_hist_mode;      /* harnesses skip their own pre-operation reads in this mode: the operations alone decide the hidden state */
static long sm_hist_runs;
static void sm_hist_rec(sm_spec_t *sp, uint16_t *hist, int d, int left, long shard, long nshards, int top) {
    static char key[VC_KEYMAX], ckey[4096];
    for (int op = 0; op < sp->nops; op++) {
        if (top && nshards > 1 && op % nshards != shard) continue;
        if (vc_deadline_hit() || VC_ENOUGH_VIOLATIONS()) { vc_exhaustive = 0; return; }
        char *k = key; k += sprintf(k, "%s", sp->prefix); for (int i = 0; i < d; i++) k += sprintf(k, "%d,", hist[i]); sprintf(k, "%d", op);
        if (!vc_case(sp->label(op), key)) continue;
        long v0 = vc_nviol - sm_soft;
        int r = sp->transition(hist, d, op, ckey, 0);
        vc_case_end();
        if (r == 1) continue;
        sm_trans++; sm_hist_runs++;
        if (r == 0 && vc_nviol - sm_soft == v0 && left > 1) { hist[d] = (uint16_t)op; sm_hist_rec(sp, hist, d + 1, left - 1, shard, nshards, 0); }
    }
}
static int sm_histories(sm_spec_t *sp, const uint16_t *seed, int nseed, int depth, long shard, long nshards) {
    static uint16_t hist[4096]; memcpy(hist, seed, sizeof(uint16_t) * nseed);
    sm_hist_mode = 1;
    sm_hist_rec(sp, hist, nseed, depth, shard, nshards, 1);
    vc_stat_add("states", sm_hist_runs); vc_stat_add("transitions", sm_trans); vc_stat_add("max_depth", nseed + depth); vc_stat_add("histories_without_merging", sm_hist_runs);
    vc_stat_add("copies_verified", sm_copies_checked); vc_stat_add("inputs_scribbled", sm_scribbled);
    return 0;
}
/* replay "o1,o2,...,on" (the last one is the checked op) */
static int sm_replay(sm_spec_t *sp, const char *ops) {
    static uint16_t hist[4096]; int d = 0; const char *p = ops;
    while (*p) { hist[d++] = atoi(p); p = strchr(p, ','); if (!p) break; p++; }
    static char ckey[4096];
    vc_viol_print_per_class = 5;
    int r = sp->transition(hist, d - 1, hist[d - 1], ckey, sm_hist_mode ? 0 : 1);   /* unmerged histories: no observation between the operations, exactly as explored */
    printf("NOTE\ttransition returned %d, final state %s\n", r, r == 0 ? ckey : "-");
    return 0;
}
#endif
