/* list.c - E1 search over qlist histories (C09, with C11/C12 oracles).
 *   list <L>        all states of length <= L and size limits 0..3
 */
#include "vc.h"
#include "vc_alloc.h"
#include "seqmc.h"
#include "qlibc.h"

#define MAXL 10
typedef struct { unsigned char b[4]; size_t n; } el_t;
static const el_t EL[4] = {{{'x'}, 1}, {{'y', 0}, 2}, {{'a', 0, 'b'}, 3}, {{0}, 1}};
static int L;
typedef struct { int n, max; int e[MAXL + 2]; } model_t;
static sm_spec_t SP;

enum { OP_ADDFIRST, OP_ADDLAST, OP_ADDAT, OP_POPAT, OP_REMOVEAT, OP_POPFIRST, OP_POPLAST, OP_REMOVEFIRST, OP_REMOVELAST, OP_REVERSE, OP_CLEAR, OP_SETSIZE, OP_GETAT };
typedef struct { int kind, i, e; const char *label; } op_t;
static op_t OPS[400]; static int NOPS;
static const char *op_label(int op) { return OPS[op].label; }
static int elid(const void *d, size_t n) { for (int i = 0; i < 4; i++) if (EL[i].n == n && !memcmp(EL[i].b, d, n)) return i; return -1; }
static size_t m_datasize(const model_t *m) { size_t s = 0; for (int i = 0; i < m->n; i++) s += EL[m->e[i]].n; return s; }

static void canon(qlist_t *l, char *out, const char *after) {
    char *p = out; int n = 0; qlist_obj_t *o, *last = NULL;
    p += sprintf(p, "%zu|", l->max);
    for (o = l->first; o && n < 64; o = o->next, n++) { if (o->prev != last) vc_viol("seq:links", "after %s: element %d has a wrong prev link", after, n); *p++ = '0' + elid(o->data, o->size); last = o; }
    if (l->last != last) vc_viol("seq:links", "after %s: list->last does not point at the final element", after);
    if ((size_t)n != l->num) vc_viol("seq:links", "after %s: %d elements linked, num = %zu", after, n, l->num);
    *p = 0;
}
static void observe(qlist_t *l, const model_t *m, const char *after) {
    int n = m->n;
    errno = 0; if (l->addlast(l, NULL, 1) || errno != EINVAL) vc_viol("seq:einval", "addlast(NULL) not refused with EINVAL");
    errno = 0; if (l->addfirst(l, "x", 0) || errno != EINVAL) vc_viol("seq:einval", "addfirst(size 0) not refused with EINVAL");
    errno = 0; if (l->addat(l, n ? 1 : 0, NULL, 0) || errno != EINVAL) vc_viol("seq:einval", "addat(NULL) not refused with EINVAL");
    if ((int)l->size(l) != n) vc_viol("seq:size", "after %s: size() = %zu, expected %d", after, l->size(l), n);
    /* optional out-parameters omitted: same answers */
    { void *a = l->getfirst(l, NULL, false), *b = l->getlast(l, NULL, false), *c = l->getat(l, 0, NULL, false), *d = l->toarray(l, NULL);
      if ((a != NULL) != (n > 0) || (b != NULL) != (n > 0) || (c != NULL) != (n > 0) || (d != NULL) != (n > 0)) vc_viol("seq:null-size-pointer", "after %s: getfirst/getlast/getat/toarray without a size pointer disagree with %d elements", after, n);
      free(d); }
    if (l->datasize(l) != m_datasize(m)) vc_viol("seq:datasize", "after %s: datasize() = %zu, expected %zu", after, l->datasize(l), m_datasize(m));
    for (int i = -n - 2; i <= n + 2; i++) for (int nm = 0; nm < 2; nm++) {
        size_t sz = 9999; errno = 0;
        void *d = l->getat(l, i, &sz, nm);
        int idx = i < 0 ? n + i : i;
        if (idx < 0 || idx >= n) { if (d) { vc_viol("seq:get-out-of-range", "after %s: getat(%d) on %d elements returned data", after, i, n); if (nm) free(d); } }
        else if (!d) vc_viol("seq:get-missing", "after %s: getat(%d) on %d elements returned NULL", after, i, n);
        else { if (sz != EL[m->e[idx]].n || memcmp(d, EL[m->e[idx]].b, sz)) vc_viol("seq:get-value", "after %s: getat(%d) returned element %d, expected %d", after, i, elid(d, sz), m->e[idx]); if (nm) sm_hold(d, EL[m->e[idx]].b, EL[m->e[idx]].n, "qlist_getat(newmem)"); }
    }
    for (int w = 0; w < 2; w++) {   /* getfirst / getlast */
        size_t sz = 0; void *d = w ? l->getlast(l, &sz, true) : l->getfirst(l, &sz, true);
        if ((d != NULL) != (n > 0)) vc_viol("seq:getfirstlast", "after %s: get%s presence wrong", after, w ? "last" : "first");
        else if (d) { int idx = w ? n - 1 : 0; if (sz != EL[m->e[idx]].n || memcmp(d, EL[m->e[idx]].b, sz)) vc_viol("seq:getfirstlast", "after %s: get%s wrong element", after, w ? "last" : "first"); }
        if (d) sm_hold(d, d, sz, "qlist_getfirst/last(newmem)");
    }
    /* toarray / tostring */
    unsigned char exp[64]; size_t en = 0; char exps[64]; size_t sn = 0;
    for (int i = 0; i < n; i++) { const el_t *e = &EL[m->e[i]]; memcpy(exp + en, e->b, e->n); en += e->n; size_t k = e->n; if (e->b[k - 1] == 0) k--; memcpy(exps + sn, e->b, k); sn += k; }
    exps[sn] = 0;
    size_t asz = 777; errno = 0; void *arr = l->toarray(l, &asz);
    if (n == 0) { if (arr || asz != 0) vc_viol("seq:toarray", "after %s: toarray of an empty list returned data/size %zu", after, asz); }
    else if (!arr) vc_viol("seq:toarray", "after %s: toarray returned NULL", after);
    else if (asz != en || memcmp(arr, exp, en)) vc_viol("seq:toarray", "after %s: toarray returned %zu bytes that differ from the concatenation (%zu bytes)", after, asz, en);
    if (arr) sm_hold(arr, arr, asz, "qlist_toarray");
    char *s = l->tostring(l);
    if (n == 0) { if (s) vc_viol("seq:tostring", "after %s: tostring of an empty list returned data", after); }
    else if (!s) vc_viol("seq:tostring", "after %s: tostring returned NULL", after);
    else if (memcmp(s, exps, sn + 1)) vc_viol("seq:tostring", "after %s: tostring differs from the concatenation without one trailing NUL per element", after);
    if (s) sm_hold(s, s, sn + 1, "qlist_tostring");
    /* forward walks */
    for (int nm = 0; nm < 2; nm++) {
        qlist_obj_t ob; memset(&ob, 0, sizeof ob); int c = 0, bad = 0;
        while (l->getnext(l, &ob, nm)) {
            if (c >= n) { bad = 1; if (nm) free(ob.data); break; }
            if (ob.size != EL[m->e[c]].n || memcmp(ob.data, EL[m->e[c]].b, ob.size)) bad = 1;
            if (nm) sm_hold(ob.data, ob.data, ob.size, "qlist_getnext(newmem)");
            c++;
        }
        if (bad || c != n) vc_viol("seq:walk", "after %s: getnext walk (newmem=%d) returned %d elements, expected the %d in order", after, nm, c, n);
    }
}
static void m_insert(model_t *m, int pos, int e) { memmove(m->e + pos + 1, m->e + pos, sizeof(int) * (m->n - pos)); m->e[pos] = e; m->n++; }
static void m_delete(model_t *m, int pos) { memmove(m->e + pos, m->e + pos + 1, sizeof(int) * (m->n - pos - 1)); m->n--; }

static int apply(qlist_t *l, model_t *m, const op_t *op, int check, const char *after) {
    int n = m->n;
    switch (op->kind) {
        case OP_ADDFIRST: case OP_ADDLAST: case OP_ADDAT: {
            int i = op->kind == OP_ADDFIRST ? 0 : op->kind == OP_ADDLAST ? -1 : op->i;
            if (op->kind == OP_ADDAT && (i < -n - 2 || i > n + 2)) return 1;
            int full = m->max > 0 && n >= m->max;
            int pos = i < 0 ? n + i + 1 : i;
            int ok = !full && pos >= 0 && pos <= n;
            if (ok && n + 1 > L) return 1;
            const el_t *e = &EL[op->e]; void *b = sm_fresh(e->b, e->n); errno = 0;
            bool r = op->kind == OP_ADDFIRST ? l->addfirst(l, b, e->n) : op->kind == OP_ADDLAST ? l->addlast(l, b, e->n) : l->addat(l, i, b, e->n);
            int er = errno;
            sm_scribble(b, e->n);
            if (check && r != (bool)ok) vc_viol("seq:add-result", "%s: add at %d on %d elements (max %d) returned %d, expected %d", after, i, n, m->max, r, ok);
            if (check && !ok && !r && er != (full ? ENOBUFS : ERANGE)) vc_viol("seq:add-errno", "%s: refused add sets errno %d", after, er);
            if (ok) m_insert(m, pos, op->e);
            break;
        }
        case OP_POPAT: case OP_POPFIRST: case OP_POPLAST: {
            int i = op->kind == OP_POPFIRST ? 0 : op->kind == OP_POPLAST ? -1 : op->i;
            if (op->kind == OP_POPAT && (i < -n - 2 || i > n + 2)) return 1;
            int idx = i < 0 ? n + i : i; int ok = idx >= 0 && idx < n;
            size_t sz = 0; void *d = op->kind == OP_POPFIRST ? l->popfirst(l, &sz) : op->kind == OP_POPLAST ? l->poplast(l, &sz) : l->popat(l, i, &sz);
            if (check && (d != NULL) != ok) vc_viol("seq:pop-result", "%s: pop at %d on %d elements returned %s", after, i, n, d ? "data" : "NULL");
            if (d && ok) { if (check && (sz != EL[m->e[idx]].n || memcmp(d, EL[m->e[idx]].b, sz))) vc_viol("seq:pop-value", "%s: pop at %d returned element %d, expected %d", after, i, elid(d, sz), m->e[idx]); sm_hold(d, EL[m->e[idx]].b, EL[m->e[idx]].n, "qlist_popat"); }
            else if (d) free(d);
            if (ok) m_delete(m, idx);
            break;
        }
        case OP_REMOVEAT: case OP_REMOVEFIRST: case OP_REMOVELAST: {
            int i = op->kind == OP_REMOVEFIRST ? 0 : op->kind == OP_REMOVELAST ? -1 : op->i;
            if (op->kind == OP_REMOVEAT && (i < -n - 2 || i > n + 2)) return 1;
            int idx = i < 0 ? n + i : i; int ok = idx >= 0 && idx < n;
            bool r = op->kind == OP_REMOVEFIRST ? l->removefirst(l) : op->kind == OP_REMOVELAST ? l->removelast(l) : l->removeat(l, i);
            if (check && r != (bool)ok) vc_viol("seq:remove-result", "%s: remove at %d on %d elements returned %d", after, i, n, r);
            if (ok) m_delete(m, idx);
            break;
        }
        case OP_GETAT: {   /* a read as an operation: it changes nothing the model knows, but it may move whatever the implementation remembers between calls */
            int i = op->i; if (i < -n - 2 || i > n + 2) return 1;
            int idx = i < 0 ? n + i : i; size_t sz = 0; void *d = l->getat(l, i, &sz, false);
            if (check) { if (idx < 0 || idx >= n) { if (d) vc_viol("seq:get-out-of-range", "%s: getat(%d) on %d elements returned data", after, i, n); }
                         else if (!d) vc_viol("seq:get-missing", "%s: getat(%d) on %d elements returned NULL", after, i, n);
                         else if (sz != EL[m->e[idx]].n || memcmp(d, EL[m->e[idx]].b, sz)) vc_viol("seq:get-value", "%s: getat(%d) returned element %d, expected %d", after, i, elid(d, sz), m->e[idx]); }
            break;
        }
        case OP_REVERSE: l->reverse(l); for (int a = 0, b = n - 1; a < b; a++, b--) { int t = m->e[a]; m->e[a] = m->e[b]; m->e[b] = t; } break;
        case OP_CLEAR: l->clear(l); m->n = 0; break;
        case OP_SETSIZE: { size_t old = l->setsize(l, op->i); if (check && (int)old != m->max) vc_viol("seq:setsize", "%s: setsize returned %zu, previous limit was %d", after, old, m->max); m->max = op->i; break; }
    }
    return 0;
}
static int transition(const uint16_t *hist, int d, int opi, char *ckey, int verbose) {
    long live0 = va_live; model_t m; memset(&m, 0, sizeof m);
    qlist_t *l = qlist(0);
    char after[64];
    for (int i = 0; i < d; i++) { snprintf(after, sizeof after, "step %d (op %d)", i, hist[i]); apply(l, &m, &OPS[hist[i]], verbose, after); if (verbose) observe(l, &m, after); }
    vc_asan_check();   /* reports raised by the history prefix belong to the transitions that ended in those ops */
    snprintf(after, sizeof after, "op %d", opi);
    if (!sm_hist_mode) {
    for (int i = 0; i < m.n; i++) { size_t sz = 0; void *d = l->getat(l, i, &sz, true); if (d) sm_hold(d, EL[m.e[i]].b, EL[m.e[i]].n, "qlist_getat(newmem) taken before the operation"); }
    if (m.n) { size_t sz = 0; void *a = l->toarray(l, &sz); if (a) sm_hold(a, a, sz, "qlist_toarray taken before the operation"); }
    }
    if (apply(l, &m, &OPS[opi], 1, after) == 1) { sm_release_held(); l->free(l); return 1; }
    canon(l, ckey, after);
    /* the canonical key must equal what the model predicts: a refused call changed nothing, an accepted one exactly one position */
    char want[80], *p = want; p += sprintf(p, "%d|", m.max); for (int i = 0; i < m.n; i++) *p++ = '0' + m.e[i]; *p = 0;
    if (strcmp(want, ckey)) vc_viol("seq:content", "after %s: list is [%s], expected [%s]", after, ckey, want);
    observe(l, &m, after);
    sm_verify_held("while the container was still alive");
    l->free(l);
    sm_verify_held("after the container was freed");
    sm_release_held();
    sm_leakcheck(live0, after);
    sm_asan(OPS[opi].label);
    return 0;
}
static void initial(char *ckey) { qlist_t *l = qlist(0); canon(l, ckey, "ctor"); l->free(l); }
static void setup(void) {
    NOPS = 0;
    for (int e = 0; e < 4; e++) { OPS[NOPS++] = (op_t){OP_ADDFIRST, 0, e, "qlist_addfirst"}; OPS[NOPS++] = (op_t){OP_ADDLAST, 0, e, "qlist_addlast"}; }
    for (int i = -L - 2; i <= L + 2; i++) for (int e = 0; e < 2; e++) OPS[NOPS++] = (op_t){OP_ADDAT, i, e * 2, "qlist_addat"};
    for (int i = -L - 2; i <= L + 2; i++) { OPS[NOPS++] = (op_t){OP_POPAT, i, 0, "qlist_popat"}; OPS[NOPS++] = (op_t){OP_REMOVEAT, i, 0, "qlist_removeat"}; }
    OPS[NOPS++] = (op_t){OP_POPFIRST, 0, 0, "qlist_popfirst"}; OPS[NOPS++] = (op_t){OP_POPLAST, 0, 0, "qlist_poplast"};
    OPS[NOPS++] = (op_t){OP_REMOVEFIRST, 0, 0, "qlist_removefirst"}; OPS[NOPS++] = (op_t){OP_REMOVELAST, 0, 0, "qlist_removelast"};
    OPS[NOPS++] = (op_t){OP_REVERSE, 0, 0, "qlist_reverse"}; OPS[NOPS++] = (op_t){OP_CLEAR, 0, 0, "qlist_clear"};
    for (int mx = 0; mx <= 3; mx++) OPS[NOPS++] = (op_t){OP_SETSIZE, mx, 0, "qlist_setsize"};
    if (sm_hist_mode) for (int i = -L - 2; i <= L + 2; i++) OPS[NOPS++] = (op_t){OP_GETAT, i, 0, "qlist_getat"};   /* in the closure a read is a self-loop that the observation already covers */
    snprintf(SP.prefix, sizeof SP.prefix, "list:%d:", L);
    SP.nops = NOPS; SP.label = op_label; SP.transition = transition; SP.initial = initial;
}
static int worker(int argc, char **argv) {
    if (vc_replay_key) { int off; if (sscanf(vc_replay_key, "list:%d:%n", &L, &off) < 1) return 1; if (argc >= 3 && !strcmp(argv[2], "hist")) sm_hist_mode = 1; setup(); vc_case("replay", vc_replay_key); return sm_replay(&SP, vc_replay_key + off); }
    if (argc < 2) return 1;
    L = atoi(argv[1]); if (argc >= 7 && !strcmp(argv[2], "hist")) sm_hist_mode = 1;
    setup();
    if (argc >= 7 && !strcmp(argv[2], "hist")) {   /* list <L> hist <n> <depth> <shard> <nshards>: seed state of n elements (addlast), then every history of <= depth operations, unmerged */
        int n = atoi(argv[3]); uint16_t seed[16];
        for (int i = 0; i < n && i < 16; i++) { int want = i % 3; for (int o = 0; o < NOPS; o++) if (OPS[o].kind == OP_ADDLAST && OPS[o].e == want) seed[i] = (uint16_t)o; }
        return sm_histories(&SP, seed, n, atoi(argv[4]), atol(argv[5]), atol(argv[6]));
    }
    sm_search(&SP, 0);
    return 0;
}
int main(int argc, char **argv) { return vc_main(argc, argv, worker); }
