/* hashtbl.c - E1 search over qhashtbl histories (C05, with the C11/C12 oracles).
 *   hashtbl <range> <U> <NV>
 * ops: put(k, v) through put / putstr / putint depending on the value version, remove(k), clear.
 * observation after every transition: get (both newmem), getstr, getint, size, complete getnext walks.
 */
#include "vc.h"
#include "vc_alloc.h"
#include "seqmc.h"
#include "refhash.h"
#include "qlibc.h"

#define MAXU 8
static const char *KEYS[MAXU] = {"", "a", "b", "cc", "d", "key-with-a-longer-name", "e", "f"};
/* "pair" mode: two keys with the SAME 32-bit MurmurHash3 value of which one is a proper prefix of the other (found by search, checked at start-up) plus a third key with that prefix:
 * whatever compares hashes first and names second only shows a flaw in the name comparison on such a pair */
static const char *PAIRKEYS[3] = {"session6aa6b62c", "session", "sessio"};
typedef struct { unsigned char b[8]; size_t n; int kind; } val_t;   /* kind 0 = bytes (put), 1 = string (putstr), 2 = int (putint) */
static const val_t VAL[5] = {{{1, 0, 2}, 3, 0}, {"hello", 6, 1}, {{1, 0, 3}, 3, 0}, {"42", 3, 2}, {{0}, 0, 0}};   /* v0 and v2: same length, equal up to a NUL byte; v4: a value of length 0 (valid pointer, size 0) */
static int RANGE, U, NV; static size_t EFFRANGE;
typedef struct { int present[MAXU], val[MAXU]; } model_t;
static sm_spec_t SP;
static long n_unlink_head, n_unlink_mid, n_unlink_tail, n_maxchain;

enum { OP_PUT, OP_REMOVE, OP_CLEAR, OP_SCANREMOVE, OP_ALIAS, OP_PUTHUGE, OP_GET };
typedef struct { int kind, k, v; const char *label; } op_t;
static op_t OPS[160]; static int NOPS; static long n_scanrm, n_scanrm_next;
static const char *op_label(int op) { return OPS[op].label; }
static int m_count(const model_t *m) { int c = 0; for (int i = 0; i < U; i++) c += m->present[i]; return c; }
static int keyid(const char *name) { for (int i = 0; i < U; i++) if (!strcmp(KEYS[i], name)) return i; return -1; }

static void canon(qhashtbl_t *t, char *out) {
    char *p = out;
    for (size_t s = 0; s < t->range; s++) {
        if (!t->slots[s]) continue;
        p += sprintf(p, "%zu[", s);
        int len = 0;
        for (qhashtbl_obj_t *o = t->slots[s]; o && len < 64; o = o->next, len++) {
            int k = keyid(o->name), v = -1;
            for (int i = 0; i < 5; i++) if (o->size == VAL[i].n && !memcmp(o->data, VAL[i].b, o->size)) v = i;
            p += sprintf(p, "%d:%d ", k, v);
        }
        if (len > n_maxchain) n_maxchain = len;
        *p++ = ']';
    }
    *p = 0;
}
static void observe(qhashtbl_t *t, const model_t *m, const char *after) {
    /* refused calls first, so that any effect they had is seen below */
    for (int i = 0; i < U; i++) { errno = 0; if (t->put(t, KEYS[i], NULL, 3) || errno != EINVAL) vc_viol("map:einval", "after %s: put('%s', NULL data) not refused with EINVAL", after, KEYS[i]); errno = 0; if (t->putstr(t, KEYS[i], NULL) || errno != EINVAL) vc_viol("map:einval", "after %s: putstr('%s', NULL) not refused with EINVAL", after, KEYS[i]); }
    errno = 0; if (t->put(t, NULL, "x", 1) || errno != EINVAL) vc_viol("map:einval", "put(NULL name) not refused with EINVAL");
    errno = 0; if (t->remove(t, NULL) || errno != EINVAL) vc_viol("map:einval", "remove(NULL) not refused with EINVAL");
    for (int i = 0; i < U; i++) { void *d = t->get(t, KEYS[i], NULL, false); if ((d != NULL) != (m->present[i] != 0)) vc_viol("map:null-size-pointer", "after %s: get('%s') without a size pointer disagrees with the map", after, KEYS[i]); }
    if (t->range != EFFRANGE) vc_viol("map:range", "after %s: range %zu, constructed with %zu", after, t->range, EFFRANGE);
    if ((int)t->size(t) != m_count(m)) vc_viol("map:size", "after %s: size() = %zu, %d distinct keys stored", after, t->size(t), m_count(m));
    for (int i = 0; i < U; i++) {
        size_t kn = strlen(KEYS[i]) + 1;
        for (int nm = 0; nm < 2; nm++) {
            char *kb = sm_fresh(KEYS[i], kn); size_t sz = 4242; errno = 0;
            void *d = t->get(t, kb, &sz, nm); int e = errno;
            sm_scribble(kb, kn);
            if (!m->present[i]) { if (d) vc_viol("map:get-absent", "after %s: get of absent key '%s' returned data", after, KEYS[i]); else if (e != ENOENT) vc_viol("map:get-errno", "after %s: get of absent key: errno %d", after, e); }
            else {
                const val_t *v = &VAL[m->val[i]];
                if (!d) vc_viol("map:get-missing", "after %s: get of stored key '%s' returned NULL", after, KEYS[i]);
                else if (sz != v->n || memcmp(d, v->b, v->n)) vc_viol("map:get-value", "after %s: key '%s' returns %zu bytes, expected value version %d", after, KEYS[i], sz, m->val[i]);
                if (d && nm) sm_hold(d, v->b, v->n, "qhashtbl_get(newmem)");
            }
        }
        /* getstr / getint */
        char *kb = sm_fresh(KEYS[i], kn);
        char *s = t->getstr(t, kb, true);
        if (m->present[i]) {
            const val_t *v = &VAL[m->val[i]];
            if (!s) vc_viol("map:getstr-missing", "after %s: getstr of stored key '%s' returned NULL", after, KEYS[i]);
            else if (memcmp(s, v->b, v->n)) vc_viol("map:getstr-value", "after %s: getstr('%s') wrong bytes", after, KEYS[i]);
            if (s) sm_hold(s, v->b, v->n, "qhashtbl_getstr(newmem)");
            if (v->kind == 2) { int64_t n = t->getint(t, kb); if (n != 42) vc_viol("map:getint", "after %s: getint('%s') = %lld, expected 42", after, KEYS[i], (long long)n); }
        } else { if (s) { vc_viol("map:get-absent", "after %s: getstr of absent key returned data", after); free(s); } if (t->getint(t, kb) != 0) vc_viol("map:getint", "after %s: getint of absent key != 0", after); }
        sm_scribble(kb, kn);
    }
    /* complete walks: every stored key exactly once with its value, then the end (ENOENT) */
    for (int nm = 0; nm < 2; nm++) {
        qhashtbl_obj_t ob; memset(&ob, 0, sizeof ob); int seen[MAXU] = {0}, steps = 0, n = m_count(m), bad = 0;
        errno = 0;
        while (t->getnext(t, &ob, nm)) {
            if (++steps > n + 2) { vc_viol("walk:endless", "after %s: getnext walk returned more than %d entries", after, n + 2); bad = 1; if (nm) { free(ob.name); free(ob.data); } break; }
            int k = ob.name ? keyid(ob.name) : -1;
            if (k < 0 || !m->present[k]) { vc_viol("walk:foreign-key", "after %s: walk returned a key that is not stored", after); bad = 1; }
            else if (seen[k]) { vc_viol("walk:key-twice", "after %s: walk returned key '%s' twice", after, KEYS[k]); bad = 1; }
            else { seen[k] = 1; const val_t *v = &VAL[m->val[k]]; if (ob.size != v->n || memcmp(ob.data, v->b, v->n)) { vc_viol("walk:value", "after %s: walk returned the wrong value for '%s'", after, KEYS[k]); bad = 1; } }
            if (nm) { if (ob.name) sm_hold(ob.name, ob.name, strlen(ob.name) + 1, "qhashtbl_getnext(newmem) name"); if (ob.data) sm_hold(ob.data, ob.data, ob.size, "qhashtbl_getnext(newmem) data"); }
            if (bad) break;
            errno = 0;
        }
        if (!bad) { if (errno != ENOENT) vc_viol("walk:end-errno", "after %s: end of walk reported with errno %d, not ENOENT", after, errno); for (int i = 0; i < U; i++) if (m->present[i] && !seen[i]) { vc_viol("walk:missed", "after %s: walk never returned stored key '%s'", after, KEYS[i]); break; } }
    }
    errno = 0; if (t->put(t, NULL, "x", 1) || errno != EINVAL) vc_viol("map:einval", "put(NULL name) not refused with EINVAL");
    errno = 0; if (t->get(t, NULL, NULL, false) || errno != EINVAL) vc_viol("map:einval", "get(NULL name) not refused with EINVAL");
}
/* chain position of key k in the live table: 0 head, 1 middle, 2 tail, 3 only, -1 absent */
static int chainpos(qhashtbl_t *t, int k) {
    size_t s = ref_mm32(KEYS[k], strlen(KEYS[k])) % EFFRANGE; int pos = 0, len = 0, at = -1;
    for (qhashtbl_obj_t *o = t->slots[s]; o && len < 64; o = o->next, len++) if (!strcmp(o->name, KEYS[k])) at = len;
    (void)pos;
    if (at < 0) return -1;
    if (len == 1) return 3;
    return at == 0 ? 0 : at == len - 1 ? 2 : 1;
}
static int apply(qhashtbl_t *t, model_t *m, const op_t *op, int check, const char *after) {
    size_t kn = strlen(KEYS[op->k]) + 1;
    switch (op->kind) {
        case OP_PUT: {
            const val_t *v = &VAL[op->v];
            char *kb = sm_fresh(KEYS[op->k], kn); void *vb = v->n ? sm_fresh(v->b, v->n) : malloc(0); bool r;
            if (v->kind == 0) r = t->put(t, kb, vb, v->n); else if (v->kind == 1) r = t->putstr(t, kb, vb); else r = t->putint(t, kb, 42);
            sm_scribble(kb, kn); sm_scribble(vb, v->n);
            if (check && !r) vc_viol("map:put-failed", "%s: put returned false", after);
            m->present[op->k] = 1; m->val[op->k] = op->v; break;
        }
        case OP_REMOVE: {
            if (check) { int cp = chainpos(t, op->k); if (cp == 0) n_unlink_head++; else if (cp == 1) n_unlink_mid++; else if (cp == 2) n_unlink_tail++; }
            char *kb = sm_fresh(KEYS[op->k], kn); errno = 0;
            bool r = t->remove(t, kb); int e = errno;
            sm_scribble(kb, kn);
            if (check && r != (bool)m->present[op->k]) vc_viol("map:remove-result", "%s: remove returned %d, key was %s", after, r, m->present[op->k] ? "present" : "absent");
            if (check && !m->present[op->k] && e != ENOENT) vc_viol("map:remove-errno", "%s: removing an absent key sets errno %d", after, e);
            m->present[op->k] = 0; break;
        }
        case OP_CLEAR: t->clear(t); memset(m->present, 0, sizeof m->present); break;
        case OP_PUTHUGE: {   /* a value size no allocator can satisfy: refused with ENOMEM, nothing changes */
            char *kb = sm_fresh(KEYS[op->k], kn); static char one[1] = {'x'}; errno = 0;
            bool r = t->put(t, kb, one, SIZE_MAX / 2); int e = errno; sm_scribble(kb, kn);
            if (check && r) vc_viol("map:put-huge", "%s: put of a value of SIZE_MAX/2 bytes returned true", after);
            else if (check && e != ENOMEM) vc_viol("map:put-huge", "%s: put of a value of SIZE_MAX/2 bytes refused with errno %d, not ENOMEM", after, e);
            break;
        }
        case OP_GET: {   /* a read as an operation (see sm_histories in seqmc.h); v = newmem */
            size_t sz = 4242; void *d = t->get(t, KEYS[op->k], &sz, op->v);
            if (check) { if (!m->present[op->k]) { if (d) vc_viol("map:get-absent", "%s: get of absent key '%s' returned data", after, KEYS[op->k]); }
                         else if (!d) vc_viol("map:get-missing", "%s: get of stored key '%s' returned NULL", after, KEYS[op->k]);
                         else if (sz != VAL[m->val[op->k]].n || memcmp(d, VAL[m->val[op->k]].b, sz)) vc_viol("map:get-value", "%s: key '%s' returns %zu bytes, expected value version %d", after, KEYS[op->k], sz, m->val[op->k]); }
            if (d && op->v) free(d);
            break;
        }
        case OP_ALIAS: {   /* the name argument is the table's own key string (zero-copy getnext of the v-th element): remove(name) / putstr(name, "hello") */
            if (m_count(m) <= op->v) return 1;
            qhashtbl_obj_t o; memset(&o, 0, sizeof o); int n = 0;
            while (t->getnext(t, &o, false) && n < op->v) n++;
            int id = keyid(o.name); if (id < 0) { if (check) vc_viol("walk:unknown-key", "%s: walk returned a key that is not stored", after); break; }
            if (op->k == 0) { bool r = t->remove(t, o.name); if (check && !r) vc_viol("map:remove-result", "%s: remove(key string of the element itself) returned false", after); m->present[id] = 0; }
            else if (op->k == 2) { bool r = t->put(t, KEYS[id], o.data, o.size); if (check && !r) vc_viol("map:put-failed", "%s: put(value buffer of the element itself) returned false", after); }
            else { bool r = t->putstr(t, o.name, "hello"); if (check && !r) vc_viol("map:put-failed", "%s: putstr(key string of the element itself) returned false", after); m->present[id] = 1; m->val[id] = 1; }
            break;
        }
        case OP_SCANREMOVE: {   /* documented: "make sure newmem flag is set if deletion is expected during the scan" - a copying walk, key k removed after the v-th element */
            if (m_count(m) < op->v) return 1;
            qhashtbl_obj_t o; memset(&o, 0, sizeof o); int seen[MAXU] = {0}, n = 0, removed = 0;
            while (t->getnext(t, &o, true)) {
                n++;
                int id = keyid(o.name);
                if (check) {
                    if (id < 0) vc_viol("scanrm:unknown-key", "%s: element %d of the walk is no stored key", after, n);
                    else if (seen[id]++) vc_viol("scanrm:duplicate", "%s: key '%s' returned twice", after, KEYS[id]);
                    else if (!m->present[id]) vc_viol("scanrm:removed-key", "%s: key '%s' returned after it had been removed", after, KEYS[id]);
                    else if (o.size != VAL[m->val[id]].n || memcmp(o.data, VAL[m->val[id]].b, o.size)) vc_viol("scanrm:value", "%s: key '%s' returned with a wrong value", after, KEYS[id]);
                }
                free(o.name); free(o.data);
                if (n == op->v && !removed) {
                    removed = 1; if (check) { n_scanrm++; if (o.next && !strcmp(o.next->name, KEYS[op->k])) n_scanrm_next++; }
                    bool r = t->remove(t, KEYS[op->k]);
                    if (check && r != (bool)m->present[op->k]) vc_viol("map:remove-result", "%s: remove inside the walk returned %d", after, r);
                    m->present[op->k] = 0;
                }
                if (n > U + 1) { if (check) vc_viol("scanrm:endless", "%s: walk does not end", after); break; }
            }
            break;
        }
    }
    return 0;
}
static int transition(const uint16_t *hist, int d, int opi, char *ckey, int verbose) {
    long live0 = va_live; model_t m; memset(&m, 0, sizeof m);
    qhashtbl_t *t = qhashtbl(RANGE, 0);
    if (!t) { vc_viol("map:ctor", "qhashtbl(%d) returned NULL", RANGE); return -1; }
    if (t->range != EFFRANGE) vc_viol("map:range", "range %zu, expected %zu", t->range, EFFRANGE);
    char after[64];
    for (int i = 0; i < d; i++) { snprintf(after, sizeof after, "step %d (op %d)", i, hist[i]); apply(t, &m, &OPS[hist[i]], verbose, after); if (verbose) observe(t, &m, after); }
    vc_asan_check();   /* reports raised by the history prefix belong to the transitions that ended in those ops */
    snprintf(after, sizeof after, "op %d", opi);
    if (!sm_hist_mode) for (int i = 0; i < U; i++) if (m.present[i]) { size_t sz = 0; void *d = t->get(t, KEYS[i], &sz, true); if (d) sm_hold(d, VAL[m.val[i]].b, VAL[m.val[i]].n, "qhashtbl_get(newmem) taken before the operation"); }
    apply(t, &m, &OPS[opi], 1, after);
    observe(t, &m, after);
    canon(t, ckey);
    sm_verify_held("while the container was still alive");
    t->free(t);
    sm_verify_held("after the container was freed");
    sm_release_held();
    sm_leakcheck(live0, after);
    sm_asan(OPS[opi].label);
    return 0;
}
static void initial(char *ckey) { qhashtbl_t *t = qhashtbl(RANGE, 0); canon(t, ckey); t->free(t); }
static void setup(void) {
    EFFRANGE = RANGE ? RANGE : 1000;
    NOPS = 0;
    for (int k = 0; k < U; k++) for (int v = 0; v < NV; v++) OPS[NOPS++] = (op_t){OP_PUT, k, v, VAL[v].kind == 0 ? "qhashtbl_put" : VAL[v].kind == 1 ? "qhashtbl_putstr" : "qhashtbl_putint"};
    for (int k = 0; k < U; k++) OPS[NOPS++] = (op_t){OP_REMOVE, k, 0, "qhashtbl_remove"};
    OPS[NOPS++] = (op_t){OP_CLEAR, 0, 0, "qhashtbl_clear"};
    for (int k = 0; k < U; k++) OPS[NOPS++] = (op_t){OP_PUTHUGE, k, 0, "qhashtbl_put"};
    if (sm_hist_mode) for (int k = 0; k < U; k++) for (int nm = 0; nm < 2; nm++) OPS[NOPS++] = (op_t){OP_GET, k, nm, "qhashtbl_get"};   /* in the closure a read is a self-loop that the observation already covers */
    for (int j = 1; j <= 3; j++) for (int k = 0; k < U; k++) OPS[NOPS++] = (op_t){OP_SCANREMOVE, k, j, "qhashtbl_getnext"};
    for (int j = 0; j < 2; j++) { OPS[NOPS++] = (op_t){OP_ALIAS, 0, j, "qhashtbl_remove"}; OPS[NOPS++] = (op_t){OP_ALIAS, 1, j, "qhashtbl_putstr"}; OPS[NOPS++] = (op_t){OP_ALIAS, 2, j, "qhashtbl_put"}; }
    snprintf(SP.prefix, sizeof SP.prefix, "hashtbl:%d:%d:%d:", RANGE, U, NV);
    SP.nops = NOPS; SP.label = op_label; SP.transition = transition; SP.initial = initial;
}
/* ranges around and above INT_MAX: the range is a size_t, the slot array is calloc'ed (untouched pages cost nothing), and a key
 * whose hash % range is >= 2^31 lands in the upper half. Skipped (counted) when the machine refuses the allocation. */
static void hugerange(void) {
    const size_t R[] = {2147483647u, 2147483648u, 3000000000u, 4294967295u};
    for (int ri = 0; ri < 4; ri++) {
        char key[64]; snprintf(key, sizeof key, "hashtbl-hugerange:%zu", R[ri]);
        if (!vc_case("qhashtbl_put", key)) continue;
        qhashtbl_t *t = qhashtbl(R[ri], 0);
        if (!t) { vc_stat_add("hugerange_skipped", 1); printf("NOTE\tqhashtbl(%zu) could not be allocated here (errno %d): range skipped\n", R[ri], errno); vc_case_end(); continue; }
        char names[12][16]; int n = 0, upper = 0;
        for (int i = 0; i < 4000 && n < 12; i++) { char nm[16]; snprintf(nm, sizeof nm, "k%d", i); size_t slot = ref_mm32(nm, strlen(nm)) % R[ri]; int up = slot >= 2147483648u; if ((up && upper < 8) || (!up && n - upper < 4)) { strcpy(names[n++], nm); upper += up; } }
        for (int i = 0; i < n; i++) if (!t->putstr(t, names[i], names[i])) vc_viol("map:put-failed", "range %zu: putstr('%s') failed", R[ri], names[i]);
        if ((int)t->size(t) != n) vc_viol("map:size", "range %zu: size %zu after %d puts", R[ri], t->size(t), n);
        for (int i = 0; i < n; i++) { char *v = t->getstr(t, names[i], true); if (!v || strcmp(v, names[i])) vc_viol("map:get-missing", "range %zu: key '%s' (slot %zu) not found", R[ri], names[i], (size_t)(ref_mm32(names[i], strlen(names[i])) % R[ri])); free(v); }
        for (int i = 0; i < n; i++) if (!t->remove(t, names[i])) vc_viol("map:remove-result", "range %zu: remove('%s') failed", R[ri], names[i]);
        if (t->size(t) != 0) vc_viol("map:size", "range %zu: size %zu after removing everything", R[ri], t->size(t));
        t->free(t);
        vc_stat_add("transitions", 3 * n); vc_stat_add("states", n); vc_stat_add("hugerange_keys_in_upper_half", upper);
        vc_case_end();
    }
    vc_sample("qhashtbl(3000000000): put / get / remove of keys whose slot index is above INT_MAX");
}
static int worker(int argc, char **argv) {
    if (vc_replay_key && !strncmp(vc_replay_key, "hashtbl-hugerange", 17)) { hugerange(); return 0; }
    if (vc_replay_key && !strncmp(vc_replay_key, "hashtblpair:", 12)) { int off; sscanf(vc_replay_key, "hashtblpair:%d:%n", &RANGE, &off); for (int i = 0; i < 3; i++) KEYS[i] = PAIRKEYS[i]; U = 3; NV = 2; setup(); vc_case("replay", vc_replay_key); return sm_replay(&SP, vc_replay_key + off); }
    if (vc_replay_key) {
        int off; if (sscanf(vc_replay_key, "hashtbl:%d:%d:%d:%n", &RANGE, &U, &NV, &off) < 3) return 1;
        if (argc >= 5 && !strcmp(argv[4], "hist")) sm_hist_mode = 1;
        setup(); vc_case("replay", vc_replay_key); return sm_replay(&SP, vc_replay_key + off);
    }
    if (argc >= 2 && !strcmp(argv[1], "hugerange")) { hugerange(); return 0; }
    if (argc >= 3 && !strcmp(argv[1], "pair")) {
        if (ref_mm32(PAIRKEYS[0], strlen(PAIRKEYS[0])) != ref_mm32(PAIRKEYS[1], strlen(PAIRKEYS[1]))) { printf("NOTE\tthe hash pair does not collide\n"); vc_stat_add("replay_divergence", 1); return 0; }
        for (int i = 0; i < 3; i++) KEYS[i] = PAIRKEYS[i];
        RANGE = atoi(argv[2]); U = 3; NV = 2; setup(); snprintf(SP.prefix, sizeof SP.prefix, "hashtblpair:%d:", RANGE);
        sm_search(&SP, 0); vc_stat_add("full_hash_collision_pairs", 1); return 0;
    }
    if (argc < 4) return 1;
    RANGE = atoi(argv[1]); U = atoi(argv[2]); NV = atoi(argv[3]);
    if (argc >= 9 && !strcmp(argv[4], "hist")) sm_hist_mode = 1;
    setup();
    if (argc >= 9 && !strcmp(argv[4], "hist")) {   /* hashtbl <range> <U> <NV> hist <n> <depth> <shard> <nshards>: unmerged histories from a table holding the first n keys */
        int n = atoi(argv[5]); uint16_t seed[8];
        for (int i = 0; i < n && i < 8; i++) for (int o = 0; o < NOPS; o++) if (OPS[o].kind == OP_PUT && OPS[o].k == i && OPS[o].v == i % NV) seed[i] = (uint16_t)o;
        return sm_histories(&SP, seed, n, atoi(argv[6]), atol(argv[7]), atol(argv[8]));
    }
    sm_search(&SP, 0);
    vc_stat_add("unlink_head", n_unlink_head); vc_stat_add("unlink_middle", n_unlink_mid); vc_stat_add("unlink_tail", n_unlink_tail); vc_stat_add("max_chain", n_maxchain); vc_stat_add("scans_with_removal", n_scanrm); vc_stat_add("scans_removing_the_next_node", n_scanrm_next);
    return 0;
}
int main(int argc, char **argv) { return vc_main(argc, argv, worker); }
