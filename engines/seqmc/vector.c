/* vector.c - E1 search over qvector histories (C10, with C11/C12 oracles).
 *   vector <initial capacity> <objsize> <policy 0 exact 1 linear 2 double> <N>
 */
#include "vc.h"
#include "vc_alloc.h"
#include "seqmc.h"
#include "qlibc.h"

#define MAXN 10
static int CAP0, OSZ, POLICY, N;
typedef struct { int n; int e[MAXN + 2]; } model_t;
static sm_spec_t SP;
static unsigned char ELB[3][128];

enum { OP_ADDFIRST, OP_ADDLAST, OP_ADDAT, OP_SETAT, OP_SETFIRST, OP_SETLAST, OP_POPAT, OP_POPFIRST, OP_POPLAST, OP_REMOVEAT, OP_REMOVEFIRST, OP_REMOVELAST, OP_REVERSE, OP_RESIZE, OP_CLEAR, OP_RESIZEHUGE, OP_WALKSHRINK, OP_GETAT };
typedef struct { int kind, i, e; const char *label; } op_t;
static op_t OPS[500]; static int NOPS;
static const char *op_label(int op) { return OPS[op].label; }
static int elid(const void *d) { for (int i = 0; i < 3; i++) if (!memcmp(ELB[i], d, OSZ)) return i; return -1; }
static long n_growths, n_resize0;

static void canon(qvector_t *v, char *out) {
    char *p = out; p += sprintf(p, "%zu|", v->max);
    for (size_t i = 0; i < v->num && i < 32; i++) { int id = elid((unsigned char *)v->data + i * OSZ); *p++ = id < 0 ? '?' : '0' + id; }
    *p = 0;
}
static void observe(qvector_t *v, const model_t *m, const char *after) {
    int n = m->n;
    errno = 0; if (v->addlast(v, NULL) || errno != EINVAL) vc_viol("array:einval", "addlast(NULL) not refused with EINVAL");
    errno = 0; if (v->addat(v, 0, NULL) || errno != EINVAL) vc_viol("array:einval", "addat(NULL) not refused with EINVAL");
    { int opt = POLICY == 0 ? QVECTOR_RESIZE_EXACT : POLICY == 1 ? QVECTOR_RESIZE_LINEAR : QVECTOR_RESIZE_DOUBLE;   /* configuration chosen at construction: every later operation depends on it */
      if (v->objsize != (size_t)OSZ || v->options != opt) vc_viol("array:configuration-changed", "after %s: element size %zu / options %#x, constructed with %d / %#x", after, v->objsize, v->options, OSZ, opt); }
    if ((int)v->size(v) != n) vc_viol("array:size", "after %s: size() = %zu, expected %d", after, v->size(v), n);
    { void *a = v->toarray(v, NULL); if ((a != NULL) != (n > 0)) vc_viol("array:toarray", "after %s: toarray without a size pointer disagrees with %d elements", after, n); free(a); }
    if (v->max < v->num) vc_viol("array:capacity", "after %s: capacity %zu below element count %zu", after, v->max, v->num);
    for (int i = -n - 2; i <= n + 2; i++) for (int nm = 0; nm < 2; nm++) {
        errno = 0; void *d = v->getat(v, i, nm); int e = errno;
        int idx = i < 0 ? n + i : i;
        if (idx < 0 || idx >= n) { if (d) { vc_viol("array:get-out-of-range", "after %s: getat(%d) on %d elements returned data", after, i, n); if (nm) free(d); } else if (e != (n == 0 ? ENOENT : ERANGE)) vc_viol("array:get-errno", "after %s: getat(%d) on %d elements: errno %d", after, i, n, e); }
        else if (!d) vc_viol("array:get-missing", "after %s: getat(%d) on %d elements returned NULL", after, i, n);
        else { if (memcmp(d, ELB[m->e[idx]], OSZ)) vc_viol("array:get-value", "after %s: getat(%d) returned the wrong element (expected value %d)", after, i, m->e[idx]); if (nm) sm_hold(d, ELB[m->e[idx]], OSZ, "qvector_getat(newmem)"); }
    }
    for (int w = 0; w < 2; w++) {
        void *d = w ? v->getlast(v, true) : v->getfirst(v, true);
        if ((d != NULL) != (n > 0)) vc_viol("array:getfirstlast", "after %s: get%s presence wrong", after, w ? "last" : "first");
        else if (d && memcmp(d, ELB[m->e[w ? n - 1 : 0]], OSZ)) vc_viol("array:getfirstlast", "after %s: get%s wrong element", after, w ? "last" : "first");
        if (d) sm_hold(d, d, OSZ, "qvector_getfirst/last(newmem)");
    }
    size_t cnt = 777; void *arr = v->toarray(v, &cnt);
    if (n == 0) { if (arr || cnt != 0) vc_viol("array:toarray", "after %s: toarray of an empty vector returned data/count %zu", after, cnt); }
    else if (!arr) vc_viol("array:toarray", "after %s: toarray returned NULL", after);
    else { if ((int)cnt != n) vc_viol("array:toarray", "after %s: toarray count %zu, expected %d", after, cnt, n); else for (int i = 0; i < n; i++) if (memcmp((unsigned char *)arr + i * OSZ, ELB[m->e[i]], OSZ)) { vc_viol("array:toarray", "after %s: toarray element %d differs", after, i); break; } }
    if (arr) sm_hold(arr, arr, (size_t)n * OSZ, "qvector_toarray");
    for (int nm = 0; nm < 2; nm++) {
        qvector_obj_t ob; memset(&ob, 0, sizeof ob); int c = 0, bad = 0;
        while (v->getnext(v, &ob, nm)) {
            if (c >= n) { bad = 1; if (nm) free(ob.data); break; }
            if (memcmp(ob.data, ELB[m->e[c]], OSZ)) bad = 1;
            if (nm) sm_hold(ob.data, ob.data, OSZ, "qvector_getnext(newmem)");
            c++;
        }
        if (bad || c != n) vc_viol("array:walk", "after %s: getnext walk (newmem=%d) returned %d elements, expected the %d in order", after, nm, c, n);
    }
}
static void m_insert(model_t *m, int pos, int e) { memmove(m->e + pos + 1, m->e + pos, sizeof(int) * (m->n - pos)); m->e[pos] = e; m->n++; }
static void m_delete(model_t *m, int pos) { memmove(m->e + pos, m->e + pos + 1, sizeof(int) * (m->n - pos - 1)); m->n--; }

static int apply(qvector_t *v, model_t *m, const op_t *op, int check, const char *after) {
    int n = m->n;
    switch (op->kind) {
        case OP_ADDFIRST: case OP_ADDLAST: case OP_ADDAT: {
            int i = op->kind == OP_ADDFIRST ? 0 : op->kind == OP_ADDLAST ? n : op->i;
            if (op->kind == OP_ADDAT && (i < -n - 2 || i > n + 2)) return 1;
            int pos = i < 0 ? n + i : i; int ok = pos >= 0 && pos <= n;
            if (ok && n + 1 > N) return 1;
            size_t max0 = v->max;
            void *b = sm_fresh(ELB[op->e], OSZ); errno = 0;
            bool r = op->kind == OP_ADDFIRST ? v->addfirst(v, b) : op->kind == OP_ADDLAST ? v->addlast(v, b) : v->addat(v, i, b);
            int er = errno;
            sm_scribble(b, OSZ);
            if (check && r != (bool)ok) vc_viol("array:add-result", "%s: add at %d on %d elements returned %d, expected %d", after, i, n, r, ok);
            if (check && !ok && !r && er != ERANGE) vc_viol("array:add-errno", "%s: refused add sets errno %d", after, er);
            if (ok) { m_insert(m, pos, op->e); if (v->max != max0) n_growths++; }
            break;
        }
        case OP_SETAT: case OP_SETFIRST: case OP_SETLAST: {
            int i = op->kind == OP_SETFIRST ? 0 : op->kind == OP_SETLAST ? -1 : op->i;
            if (op->kind == OP_SETAT && (i < -n - 2 || i > n + 2)) return 1;
            int idx = i < 0 ? n + i : i; int ok = idx >= 0 && idx < n;
            void *b = sm_fresh(ELB[op->e], OSZ);
            bool r = op->kind == OP_SETFIRST ? v->setfirst(v, b) : op->kind == OP_SETLAST ? v->setlast(v, b) : v->setat(v, i, b);
            sm_scribble(b, OSZ);
            if (check && r != (bool)ok) vc_viol("array:set-result", "%s: set at %d on %d elements returned %d", after, i, n, r);
            if (ok) m->e[idx] = op->e;
            break;
        }
        case OP_GETAT: {   /* a read as an operation (see sm_histories in seqmc.h) */
            int i = op->i; if (i < -n - 2 || i > n + 2) return 1;
            int idx = i < 0 ? n + i : i; void *d = v->getat(v, i, false);
            if (check) { if (idx < 0 || idx >= n) { if (d) vc_viol("array:get-out-of-range", "%s: getat(%d) on %d elements returned data", after, i, n); }
                         else if (!d) vc_viol("array:get-missing", "%s: getat(%d) on %d elements returned NULL", after, i, n);
                         else if (memcmp(d, ELB[m->e[idx]], OSZ)) vc_viol("array:get-value", "%s: getat(%d) returned the wrong element (expected value %d)", after, i, m->e[idx]); }
            break;
        }
        case OP_POPAT: case OP_POPFIRST: case OP_POPLAST: {
            int i = op->kind == OP_POPFIRST ? 0 : op->kind == OP_POPLAST ? -1 : op->i;
            if (op->kind == OP_POPAT && (i < -n - 2 || i > n + 2)) return 1;
            int idx = i < 0 ? n + i : i; int ok = idx >= 0 && idx < n;
            void *d = op->kind == OP_POPFIRST ? v->popfirst(v) : op->kind == OP_POPLAST ? v->poplast(v) : v->popat(v, i);
            if (check && (d != NULL) != ok) vc_viol("array:pop-result", "%s: pop at %d on %d elements returned %s", after, i, n, d ? "data" : "NULL");
            if (d && ok) { if (check && memcmp(d, ELB[m->e[idx]], OSZ)) vc_viol("array:pop-value", "%s: pop at %d returned the wrong element", after, i); sm_hold(d, ELB[m->e[idx]], OSZ, "qvector_popat"); }
            else if (d) free(d);
            if (ok) m_delete(m, idx);
            break;
        }
        case OP_REMOVEAT: case OP_REMOVEFIRST: case OP_REMOVELAST: {
            int i = op->kind == OP_REMOVEFIRST ? 0 : op->kind == OP_REMOVELAST ? -1 : op->i;
            if (op->kind == OP_REMOVEAT && (i < -n - 2 || i > n + 2)) return 1;
            int idx = i < 0 ? n + i : i; int ok = idx >= 0 && idx < n;
            bool r = op->kind == OP_REMOVEFIRST ? v->removefirst(v) : op->kind == OP_REMOVELAST ? v->removelast(v) : v->removeat(v, i);
            if (check && r != (bool)ok) vc_viol("array:remove-result", "%s: remove at %d on %d elements returned %d", after, i, n, r);
            if (ok) m_delete(m, idx);
            break;
        }
        case OP_REVERSE: v->reverse(v); for (int a = 0, b = n - 1; a < b; a++, b--) { int t = m->e[a]; m->e[a] = m->e[b]; m->e[b] = t; } break;
        case OP_RESIZE: {
            bool r = v->resize(v, op->i);
            if (check && !r) vc_viol("array:resize-result", "%s: resize(%d) returned false", after, op->i);
            if (check && r && v->max != (size_t)op->i) vc_viol("array:resize-capacity", "%s: capacity %zu after resize(%d)", after, v->max, op->i);
            if (m->n > op->i) m->n = op->i;
            if (op->i == 0) n_resize0++;
            break;
        }
        case OP_CLEAR: v->clear(v); m->n = 0; break;
        case OP_WALKSHRINK: {   /* the cursor is an index: a walk interrupted by removals goes on with what is left at and after its position, and ends */
            int j = op->i, k = op->e;      /* j steps, then k x removelast (k = 9: clear), then the rest of the walk */
            if (n < j) return 1;
            qvector_obj_t ob; memset(&ob, 0, sizeof ob); int c = 0, bad = 0;
            while (c < j && v->getnext(v, &ob, false)) c++;
            if (k == 9) { v->clear(v); m->n = 0; } else for (int i = 0; i < k && m->n > 0; i++) { v->removelast(v); m->n--; }
            int pos = j, steps = 0;
            for (;;) {
                errno = 0; bool r = v->getnext(v, &ob, true); int e = errno;
                if (!r) { if (check && e != ENOENT) vc_viol("array:walk", "%s: end of the resumed walk reported with errno %d", after, e); break; }
                if (pos >= m->n || memcmp(ob.data, ELB[m->e[pos]], OSZ)) bad = 1;
                free(ob.data); pos++;
                if (++steps > N + 3) { bad = 1; break; }
            }
            if (check && (bad || pos < m->n)) vc_viol("array:walk-resumed", "%s: walk resumed at index %d after shrinking to %d elements returned %d elements / wrong ones", after, j, m->n, steps);
            break;
        }
        case OP_RESIZEHUGE: {   /* capacities whose byte size does not fit into size_t (or into memory): can only be refused, and then nothing may change */
            size_t want = op->i == 2 ? SIZE_MAX : SIZE_MAX / OSZ + 1 + op->i;
            if (want == 0 || (op->i < 2 && OSZ == 1)) return 1;
            size_t max0 = v->max; errno = 0; bool r = v->resize(v, want); int e = errno;
            if (check && r) vc_viol("array:resize-huge", "%s: resize(%zu) of %d-byte elements returned true (capacity now %zu)", after, want, OSZ, v->max);
            else if (check && e != ENOMEM) vc_viol("array:resize-huge", "%s: resize(%zu) refused with errno %d, ENOMEM is documented", after, want, e);
            if (check && !r && v->max != max0) vc_viol("array:resize-huge", "%s: refused resize(%zu) changed the capacity from %zu to %zu", after, want, max0, v->max);
            break;
        }
    }
    return 0;
}
static int transition(const uint16_t *hist, int d, int opi, char *ckey, int verbose) {
    long live0 = va_live; model_t m; memset(&m, 0, sizeof m);
    int opt = POLICY == 0 ? QVECTOR_RESIZE_EXACT : POLICY == 1 ? QVECTOR_RESIZE_LINEAR : QVECTOR_RESIZE_DOUBLE;
    qvector_t *v = qvector(CAP0, OSZ, opt);
    char after[64];
    for (int i = 0; i < d; i++) { snprintf(after, sizeof after, "step %d (op %d)", i, hist[i]); apply(v, &m, &OPS[hist[i]], verbose, after); if (verbose) observe(v, &m, after); }
    vc_asan_check();   /* reports raised by the history prefix belong to the transitions that ended in those ops */
    snprintf(after, sizeof after, "op %d", opi);
    if (!sm_hist_mode) {
    for (int i = 0; i < m.n; i++) { void *d = v->getat(v, i, true); if (d) sm_hold(d, ELB[m.e[i]], OSZ, "qvector_getat(newmem) taken before the operation"); }
    if (m.n) { size_t cnt = 0; void *a = v->toarray(v, &cnt); if (a) sm_hold(a, a, cnt * OSZ, "qvector_toarray taken before the operation"); }
    }
    if (apply(v, &m, &OPS[opi], 1, after) == 1) { sm_release_held(); v->free(v); return 1; }
    canon(v, ckey);
    char want[80], *p = want; for (int i = 0; i < m.n; i++) *p++ = '0' + m.e[i]; *p = 0;
    const char *bar = strchr(ckey, '|');
    if (!bar || strcmp(want, bar + 1)) vc_viol("array:content", "after %s: vector holds [%s], expected [%s]", after, ckey, want);
    observe(v, &m, after);
    sm_verify_held("while the container was still alive");
    v->free(v);
    sm_verify_held("after the container was freed");
    sm_release_held();
    sm_leakcheck(live0, after);
    sm_asan(OPS[opi].label);
    return 0;
}
static void ctor_probes(void) {   /* refused constructions */
    errno = 0; qvector_t *v = qvector(4, 0, QVECTOR_RESIZE_DOUBLE);
    if (v != NULL || errno != EINVAL) { vc_viol("array:ctor-einval", "qvector(max 4, objsize 0) not refused with EINVAL"); if (v) v->free(v); }
    for (int h = 0; h < 3; h++) {   /* an initial capacity whose byte size does not fit into size_t can only be refused */
        size_t want = h == 2 ? SIZE_MAX : SIZE_MAX / OSZ + 1 + h;
        if (want == 0 || (h < 2 && OSZ == 1)) continue;
        errno = 0; v = qvector(want, OSZ, QVECTOR_RESIZE_DOUBLE);
        if (v != NULL) { vc_viol("array:ctor-huge", "qvector(max %zu, objsize %d) returned a vector", want, OSZ); v->max = 0; v->free(v); }
        else if (errno != ENOMEM) vc_viol("array:ctor-huge", "qvector(max %zu, objsize %d) refused with errno %d, not ENOMEM", want, OSZ, errno);
    }
}
static void initial(char *ckey) { ctor_probes(); int opt = POLICY == 0 ? QVECTOR_RESIZE_EXACT : POLICY == 1 ? QVECTOR_RESIZE_LINEAR : QVECTOR_RESIZE_DOUBLE; qvector_t *v = qvector(CAP0, OSZ, opt); canon(v, ckey); v->free(v); }
static void setup(void) {
    for (int i = 0; i < OSZ; i++) { ELB[0][i] = 0; ELB[1][i] = 0x11 + i; ELB[2][i] = 0xF0 - i; }
    NOPS = 0;
    for (int e = 0; e < 3; e++) { OPS[NOPS++] = (op_t){OP_ADDFIRST, 0, e, "qvector_addfirst"}; OPS[NOPS++] = (op_t){OP_ADDLAST, 0, e, "qvector_addlast"}; }
    for (int i = -N - 2; i <= N + 2; i++) { OPS[NOPS++] = (op_t){OP_ADDAT, i, 1, "qvector_addat"}; OPS[NOPS++] = (op_t){OP_SETAT, i, 2, "qvector_setat"}; OPS[NOPS++] = (op_t){OP_POPAT, i, 0, "qvector_popat"}; OPS[NOPS++] = (op_t){OP_REMOVEAT, i, 0, "qvector_removeat"}; }
    OPS[NOPS++] = (op_t){OP_SETFIRST, 0, 0, "qvector_setfirst"}; OPS[NOPS++] = (op_t){OP_SETLAST, 0, 1, "qvector_setlast"};
    OPS[NOPS++] = (op_t){OP_POPFIRST, 0, 0, "qvector_popfirst"}; OPS[NOPS++] = (op_t){OP_POPLAST, 0, 0, "qvector_poplast"};
    OPS[NOPS++] = (op_t){OP_REMOVEFIRST, 0, 0, "qvector_removefirst"}; OPS[NOPS++] = (op_t){OP_REMOVELAST, 0, 0, "qvector_removelast"};
    OPS[NOPS++] = (op_t){OP_REVERSE, 0, 0, "qvector_reverse"};
    for (int mx = 0; mx <= N + 2; mx++) OPS[NOPS++] = (op_t){OP_RESIZE, mx, 0, "qvector_resize"};
    OPS[NOPS++] = (op_t){OP_CLEAR, 0, 0, "qvector_clear"};
    for (int h = 0; h < 3; h++) OPS[NOPS++] = (op_t){OP_RESIZEHUGE, h, 0, "qvector_resize"};
    if (sm_hist_mode) for (int i = -N - 2; i <= N + 2; i++) OPS[NOPS++] = (op_t){OP_GETAT, i, 0, "qvector_getat"};   /* in the closure a read is a self-loop that the observation already covers */
    for (int j = 1; j <= 3 && j <= N; j++) for (int k = 1; k <= 4; k++) OPS[NOPS++] = (op_t){OP_WALKSHRINK, j, k == 4 ? 9 : k, "qvector_getnext"};
    snprintf(SP.prefix, sizeof SP.prefix, "vector:%d:%d:%d:%d:", CAP0, OSZ, POLICY, N);
    SP.nops = NOPS; SP.label = op_label; SP.transition = transition; SP.initial = initial;
}
static int worker(int argc, char **argv) {
    if (vc_replay_key) { int off; if (sscanf(vc_replay_key, "vector:%d:%d:%d:%d:%n", &CAP0, &OSZ, &POLICY, &N, &off) < 4) return 1; if (argc >= 6 && !strcmp(argv[5], "hist")) sm_hist_mode = 1; setup(); vc_case("replay", vc_replay_key); return sm_replay(&SP, vc_replay_key + off); }
    if (argc < 5) return 1;
    CAP0 = atoi(argv[1]); OSZ = atoi(argv[2]); POLICY = atoi(argv[3]); N = atoi(argv[4]); if (argc >= 10 && !strcmp(argv[5], "hist")) sm_hist_mode = 1;
    setup();
    if (argc >= 10 && !strcmp(argv[5], "hist")) {   /* vector <cap> <osz> <pol> <N> hist <n> <depth> <shard> <nshards>: unmerged histories from a vector of n elements */
        int n = atoi(argv[6]); uint16_t seed[16];
        for (int i = 0; i < n && i < 16; i++) { int want = (i + 1) % 3; for (int o = 0; o < NOPS; o++) if (OPS[o].kind == OP_ADDLAST && OPS[o].e == want) seed[i] = (uint16_t)o; }
        return sm_histories(&SP, seed, n, atoi(argv[7]), atol(argv[8]), atol(argv[9]));
    }
    sm_search(&SP, 0);
    vc_stat_add("capacity_growths", n_growths); vc_stat_add("resize_to_zero", n_resize0);
    return 0;
}
int main(int argc, char **argv) { return vc_main(argc, argv, worker); }
