/* bfs.h - explicit-state breadth-first search support: states are operation histories (parent pointer + op),
 * deduplicated by a canonical key string. */
#ifndef BFS_H
#define BFS_H
#include <stdint.h>
#include <stdlib.h>
#include <string.h>

typedef struct { int parent; uint16_t op; uint16_t depth; } bfs_node_t;
typedef struct {
    bfs_node_t *nodes; long nnodes, capnodes;
    /* visited set: open addressing over offsets into a string arena */
    long *slots; long nslots, nkeys;
    char *arena; size_t arena_len, arena_cap;
    long head;
    int max_depth;
} bfs_t;

static uint64_t bfs_hash(const char *s) { uint64_t h = 1469598103934665603ULL; for (; *s; s++) { h ^= (unsigned char)*s; h *= 1099511628211ULL; } return h ^ (h >> 29); }
static void bfs_init(bfs_t *b) {
    memset(b, 0, sizeof *b);
    b->capnodes = 1 << 16; b->nodes = __real_malloc(sizeof(bfs_node_t) * b->capnodes);
    b->nslots = 1 << 17; b->slots = __real_malloc(sizeof(long) * b->nslots); for (long i = 0; i < b->nslots; i++) b->slots[i] = -1;
    b->arena_cap = 1 << 20; b->arena = __real_malloc(b->arena_cap);
}
static void bfs_free(bfs_t *b) { __real_free(b->nodes); __real_free(b->slots); __real_free(b->arena); }
/* returns 1 if key is new (and records it) */
static int bfs_visit(bfs_t *b, const char *key) {
    if (b->nkeys * 2 >= b->nslots) {
        long ns = b->nslots * 2; long *n = __real_malloc(sizeof(long) * ns); for (long i = 0; i < ns; i++) n[i] = -1;
        for (long i = 0; i < b->nslots; i++) if (b->slots[i] >= 0) { uint64_t h = bfs_hash(b->arena + b->slots[i]) & (ns - 1); while (n[h] >= 0) h = (h + 1) & (ns - 1); n[h] = b->slots[i]; }
        __real_free(b->slots); b->slots = n; b->nslots = ns;
    }
    uint64_t h = bfs_hash(key) & (b->nslots - 1);
    while (b->slots[h] >= 0) { if (!strcmp(b->arena + b->slots[h], key)) return 0; h = (h + 1) & (b->nslots - 1); }
    size_t l = strlen(key) + 1;
    if (b->arena_len + l > b->arena_cap) { while (b->arena_len + l > b->arena_cap) b->arena_cap *= 2; b->arena = __real_realloc(b->arena, b->arena_cap); }
    memcpy(b->arena + b->arena_len, key, l); b->slots[h] = b->arena_len; b->arena_len += l; b->nkeys++;
    return 1;
}
static long bfs_push(bfs_t *b, int parent, int op, int depth) {
    if (b->nnodes == b->capnodes) { b->capnodes *= 2; b->nodes = __real_realloc(b->nodes, sizeof(bfs_node_t) * b->capnodes); }
    b->nodes[b->nnodes] = (bfs_node_t){parent, (uint16_t)op, (uint16_t)depth};
    if (depth > b->max_depth) b->max_depth = depth;
    return b->nnodes++;
}
/* history of node idx into hist[0..depth) */
static int bfs_history(bfs_t *b, long idx, uint16_t *hist) {
    int d = b->nodes[idx].depth; long p = idx;
    for (int i = d - 1; i >= 0; i--) { hist[i] = b->nodes[p].op; p = b->nodes[p].parent; }
    return d;
}
#endif
