/* qsg.c - E1 search over qqueue / qstack / qgrow histories (C09, with C11/C12 oracles).
 *   qsg queue <L> | qsg stack <L> | qsg grow <L>
 */
#include "vc.h"
#include "vc_alloc.h"
#include "seqmc.h"
#include "qlibc.h"

#define MAXL 10
typedef struct { unsigned char b[8]; size_t n; int kind; } el_t;    /* kind 0 bytes, 1 string, 2 int64 */
static el_t EL[4] = {{{1, 0, 2}, 3, 0}, {"hi", 3, 1}, {{0}, 8, 2}, {"q", 2, 1}};
static int L, KIND;   /* KIND 0 queue 1 stack 2 grow */
typedef struct { int n, max; int e[MAXL + 2]; } model_t;   /* e[] in the order of the underlying list (index 0 = next to pop) */
static sm_spec_t SP;
/* grow pieces: bytes via add, string via addstr (no NUL stored), string via addstrf */
static const el_t GP[4] = {{{1, 0, 2}, 3, 0}, {"ab", 2, 1}, {"7-c", 3, 2}, {{'z', 0}, 2, 0}};

enum { OP_PUSH, OP_POP, OP_POPSTR, OP_POPINT, OP_POPAT, OP_SETSIZE, OP_CLEAR, OP_ADD };
typedef struct { int kind, i, e; const char *label; } op_t;
static op_t OPS[200]; static int NOPS;
static const char *op_label(int op) { return OPS[op].label; }
static const el_t *E(int i) { return KIND == 2 ? &GP[i] : &EL[i]; }
static int elid(const void *d, size_t n) { for (int i = 0; i < 4; i++) if (E(i)->n == n && !memcmp(E(i)->b, d, n)) return i; return -1; }
static qlist_t *LST(void *c) { return KIND == 0 ? ((qqueue_t *)c)->list : KIND == 1 ? ((qstack_t *)c)->list : ((qgrow_t *)c)->list; }

static void canon(void *c, char *out, const char *after) {
    qlist_t *l = LST(c); char *p = out; int n = 0; qlist_obj_t *o, *last = NULL;
    p += sprintf(p, "%zu|", l->max);
    for (o = l->first; o && n < 64; o = o->next, n++) { if (o->prev != last) vc_viol("seq:links", "after %s: wrong prev link at %d", after, n); *p++ = '0' + elid(o->data, o->size); last = o; }
    if (l->last != last || (size_t)n != l->num) vc_viol("seq:links", "after %s: last/num inconsistent", after);
    *p = 0;
}
#define Q ((qqueue_t *)c)
#define S ((qstack_t *)c)
#define G ((qgrow_t *)c)
static void observe(void *c, const model_t *m, const char *after) {
    int n = m->n;
    size_t sz = KIND == 0 ? Q->size(Q) : KIND == 1 ? S->size(S) : G->size(G);
    if ((int)sz != n) vc_viol("seq:size", "after %s: size() = %zu, expected %d", after, sz, n);
    /* optional out-parameters omitted: same answers */
    if (KIND == 0) { void *a = Q->get(Q, NULL, false), *b = Q->getat(Q, 0, NULL, false); if ((a != NULL) != (n > 0) || (b != NULL) != (n > 0)) vc_viol("seq:null-size-pointer", "after %s: qqueue get/getat without a size pointer disagree with %d elements", after, n); }
    else if (KIND == 1) { void *a = S->get(S, NULL, false), *b = S->getat(S, 0, NULL, false); if ((a != NULL) != (n > 0) || (b != NULL) != (n > 0)) vc_viol("seq:null-size-pointer", "after %s: qstack get/getat without a size pointer disagree with %d elements", after, n); }
    else { void *a = G->toarray(G, NULL); if ((a != NULL) != (n > 0)) vc_viol("seq:null-size-pointer", "after %s: qgrow toarray without a size pointer disagrees with %d pieces", after, n); free(a); }
    if (KIND == 2) {
        unsigned char exp[64]; size_t en = 0; char exps[64]; size_t sn = 0;
        for (int i = 0; i < n; i++) { const el_t *e = E(m->e[i]); memcpy(exp + en, e->b, e->n); en += e->n; size_t k = e->n; if (e->b[k - 1] == 0) k--; memcpy(exps + sn, e->b, k); sn += k; }
        exps[sn] = 0;
        if (G->datasize(G) != en) vc_viol("seq:datasize", "after %s: datasize() = %zu, expected %zu", after, G->datasize(G), en);
        size_t asz = 55; void *arr = G->toarray(G, &asz);
        if (n == 0) { if (arr || asz) vc_viol("seq:toarray", "after %s: toarray of an empty buffer returned data", after); }
        else if (!arr || asz != en || memcmp(arr, exp, en)) vc_viol("seq:toarray", "after %s: toarray is not the concatenation of the pieces in order of addition", after);
        if (arr) sm_hold(arr, arr, asz, "qgrow_toarray");
        char *s = G->tostring(G);
        if (n == 0) { if (s) vc_viol("seq:tostring", "after %s: tostring of an empty buffer returned data", after); }
        else if (!s || memcmp(s, exps, sn + 1)) vc_viol("seq:tostring", "after %s: tostring is not the concatenation of the pieces", after);
        if (s) sm_hold(s, s, sn + 1, "qgrow_tostring");
        return;
    }
    for (int nm = 0; nm < 2; nm++) {
        size_t gs = 0; void *d = KIND == 0 ? Q->get(Q, &gs, nm) : S->get(S, &gs, nm);
        if ((d != NULL) != (n > 0)) vc_viol("seq:peek", "after %s: get() presence wrong", after);
        else if (d && (gs != E(m->e[0])->n || memcmp(d, E(m->e[0])->b, gs))) vc_viol("seq:peek", "after %s: get() is not the %s element", after, KIND == 0 ? "oldest" : "newest");
        if (d && nm) sm_hold(d, d, gs, "get(newmem)");
        for (int i = -n - 2; i <= n + 2; i++) {
            size_t as = 0; void *a = KIND == 0 ? Q->getat(Q, i, &as, nm) : S->getat(S, i, &as, nm);
            int idx = i < 0 ? n + i : i;
            if (idx < 0 || idx >= n) { if (a) { vc_viol("seq:get-out-of-range", "after %s: getat(%d) on %d elements returned data", after, i, n); if (nm) free(a); } }
            else if (!a) vc_viol("seq:get-missing", "after %s: getat(%d) returned NULL", after, i);
            else { if (as != E(m->e[idx])->n || memcmp(a, E(m->e[idx])->b, as)) vc_viol("seq:get-value", "after %s: getat(%d) wrong element", after, i); if (nm) sm_hold(a, a, as, "getat(newmem)"); }
        }
    }
    if (n > 0 && E(m->e[0])->kind == 1) { char *s = KIND == 0 ? Q->getstr(Q) : S->getstr(S); if (!s || strcmp(s, (const char *)E(m->e[0])->b)) vc_viol("seq:peek", "after %s: getstr() wrong", after); if (s) sm_hold(s, s, strlen(s) + 1, "getstr"); }
    if (n > 0 && E(m->e[0])->kind == 2) { int64_t v = KIND == 0 ? Q->getint(Q) : S->getint(S); if (v != 0x1122334455667788LL) vc_viol("seq:peek", "after %s: getint() = %llx", after, (long long)v); }
    if (n == 0) { if ((KIND == 0 ? Q->getint(Q) : S->getint(S)) != 0) vc_viol("seq:peek", "after %s: getint() on empty container != 0", after); if ((KIND == 0 ? Q->getstr(Q) : S->getstr(S)) != NULL) vc_viol("seq:peek", "after %s: getstr() on empty container != NULL", after); }
}
static void m_delete(model_t *m, int pos) { memmove(m->e + pos, m->e + pos + 1, sizeof(int) * (m->n - pos - 1)); m->n--; }
static int apply(void *c, model_t *m, const op_t *op, int check, const char *after) {
    int n = m->n;
    switch (op->kind) {
        case OP_PUSH: {
            int full = m->max > 0 && n >= m->max;
            if (!full && n + 1 > L) return 1;
            const el_t *e = E(op->e); void *b = sm_fresh(e->b, e->n); bool r; errno = 0;
            if (e->kind == 0) r = KIND == 0 ? Q->push(Q, b, e->n) : S->push(S, b, e->n);
            else if (e->kind == 1) r = KIND == 0 ? Q->pushstr(Q, b) : S->pushstr(S, b);
            else r = KIND == 0 ? Q->pushint(Q, 0x1122334455667788LL) : S->pushint(S, 0x1122334455667788LL);
            int er = errno;
            sm_scribble(b, e->n);
            if (check && r != !full) vc_viol("seq:add-result", "%s: push on %d elements (max %d) returned %d", after, n, m->max, r);
            if (check && full && !r && er != ENOBUFS) vc_viol("seq:add-errno", "%s: push on a full container sets errno %d", after, er);
            if (!full) { if (KIND == 0) m->e[m->n++] = op->e; else { memmove(m->e + 1, m->e, sizeof(int) * n); m->e[0] = op->e; m->n++; } }
            break;
        }
        case OP_ADD: {
            if (n + 1 > L) return 1;
            const el_t *e = E(op->e); bool r;
            if (e->kind == 0) { void *b = sm_fresh(e->b, e->n); r = G->add(G, b, e->n); sm_scribble(b, e->n); }
            else if (e->kind == 1) { char *b = malloc(e->n + 1); memcpy(b, e->b, e->n); b[e->n] = 0; r = G->addstr(G, b); sm_scribble(b, e->n + 1); }
            else r = G->addstrf(G, "%d-%s", 7, "c");
            if (check && !r) vc_viol("seq:add-result", "%s: add returned false", after);
            m->e[m->n++] = op->e; break;
        }
        case OP_POP: case OP_POPSTR: case OP_POPINT: case OP_POPAT: {
            int i = op->kind == OP_POPAT ? op->i : 0;
            if (op->kind == OP_POPAT && (i < -n - 2 || i > n + 2)) return 1;
            int idx = i < 0 ? n + i : i; int ok = idx >= 0 && idx < n;
            if (op->kind == OP_POPSTR && n > 0 && E(m->e[0])->kind != 1) return 1;    /* popstr/popint only on elements of that type */
            if (op->kind == OP_POPINT && n > 0 && E(m->e[0])->kind != 2) return 1;
            if (op->kind == OP_POPINT) {
                int64_t v = KIND == 0 ? Q->popint(Q) : S->popint(S);
                if (check && v != (ok ? 0x1122334455667788LL : 0)) vc_viol("seq:pop-value", "%s: popint returned %llx", after, (long long)v);
            } else {
                size_t sz = 0; void *d;
                if (op->kind == OP_POPSTR) { d = KIND == 0 ? Q->popstr(Q) : S->popstr(S); sz = d ? strlen(d) + 1 : 0; }
                else if (op->kind == OP_POP) d = KIND == 0 ? Q->pop(Q, &sz) : S->pop(S, &sz);
                else d = KIND == 0 ? Q->popat(Q, i, &sz) : S->popat(S, i, &sz);
                if (check && (d != NULL) != ok) vc_viol("seq:pop-result", "%s: pop at %d on %d elements returned %s", after, i, n, d ? "data" : "NULL");
                if (d && ok) { if (check && (sz != E(m->e[idx])->n || memcmp(d, E(m->e[idx])->b, sz))) vc_viol("seq:pop-value", "%s: pop returned the wrong element (%s order)", after, KIND == 0 ? "FIFO" : "LIFO"); sm_hold(d, E(m->e[idx])->b, E(m->e[idx])->n, "pop"); }
                else if (d) free(d);
            }
            if (ok) m_delete(m, idx);
            break;
        }
        case OP_SETSIZE: { size_t old = KIND == 0 ? Q->setsize(Q, op->i) : S->setsize(S, op->i); if (check && (int)old != m->max) vc_viol("seq:setsize", "%s: setsize returned %zu", after, old); m->max = op->i; break; }
        case OP_CLEAR: if (KIND == 0) Q->clear(Q); else if (KIND == 1) S->clear(S); else G->clear(G); m->n = 0; break;
    }
    return 0;
}
static void *mk(void) { return KIND == 0 ? (void *)qqueue(0) : KIND == 1 ? (void *)qstack(0) : (void *)qgrow(0); }
static void fr(void *c) { if (KIND == 0) Q->free(Q); else if (KIND == 1) S->free(S); else G->free(G); }
static int transition(const uint16_t *hist, int d, int opi, char *ckey, int verbose) {
    long live0 = va_live; model_t m; memset(&m, 0, sizeof m);
    void *c = mk(); char after[64];
    for (int i = 0; i < d; i++) { snprintf(after, sizeof after, "step %d (op %d)", i, hist[i]); apply(c, &m, &OPS[hist[i]], verbose, after); if (verbose) observe(c, &m, after); }
    vc_asan_check();   /* reports raised by the history prefix belong to the transitions that ended in those ops */
    snprintf(after, sizeof after, "op %d", opi);
    if (apply(c, &m, &OPS[opi], 1, after) == 1) { sm_release_held(); fr(c); return 1; }
    canon(c, ckey, after);
    char want[80], *p = want; p += sprintf(p, "%d|", m.max); for (int i = 0; i < m.n; i++) *p++ = '0' + m.e[i]; *p = 0;
    if (strcmp(want, ckey)) vc_viol("seq:content", "after %s: container holds [%s], expected [%s]", after, ckey, want);
    observe(c, &m, after);
    sm_verify_held("while the container was still alive");
    fr(c);
    sm_verify_held("after the container was freed");
    sm_release_held();
    sm_leakcheck(live0, after);
    sm_asan(OPS[opi].label);
    return 0;
}
static void initial(char *ckey) { void *c = mk(); canon(c, ckey, "ctor"); fr(c); }
static void setup(void) {
    int64_t v = 0x1122334455667788LL; memcpy(EL[2].b, &v, 8);
    NOPS = 0;
    const char *nm = KIND == 0 ? "qqueue" : KIND == 1 ? "qstack" : "qgrow";
    static char labels[16][32];
#define LB(i, s) (snprintf(labels[i], 32, "%s_%s", nm, s), labels[i])
    if (KIND == 2) {
        for (int e = 0; e < 4; e++) OPS[NOPS++] = (op_t){OP_ADD, 0, e, LB(e, GP[e].kind == 0 ? "add" : GP[e].kind == 1 ? "addstr" : "addstrf")};
        OPS[NOPS++] = (op_t){OP_CLEAR, 0, 0, LB(5, "clear")};
    } else {
        for (int e = 0; e < 4; e++) OPS[NOPS++] = (op_t){OP_PUSH, 0, e, LB(e, EL[e].kind == 0 ? "push" : EL[e].kind == 1 ? "pushstr" : "pushint")};
        OPS[NOPS++] = (op_t){OP_POP, 0, 0, LB(5, "pop")}; OPS[NOPS++] = (op_t){OP_POPSTR, 0, 0, LB(6, "popstr")}; OPS[NOPS++] = (op_t){OP_POPINT, 0, 0, LB(7, "popint")};
        for (int i = -L - 2; i <= L + 2; i++) OPS[NOPS++] = (op_t){OP_POPAT, i, 0, LB(8, "popat")};
        for (int mx = 0; mx <= 2; mx++) OPS[NOPS++] = (op_t){OP_SETSIZE, mx, 0, LB(9, "setsize")};
        OPS[NOPS++] = (op_t){OP_CLEAR, 0, 0, LB(10, "clear")};
    }
    snprintf(SP.prefix, sizeof SP.prefix, "qsg:%d:%d:", KIND, L);
    SP.nops = NOPS; SP.label = op_label; SP.transition = transition; SP.initial = initial;
}
static int worker(int argc, char **argv) {
    if (vc_replay_key) { int off; if (sscanf(vc_replay_key, "qsg:%d:%d:%n", &KIND, &L, &off) < 2) return 1; setup(); vc_case("replay", vc_replay_key); return sm_replay(&SP, vc_replay_key + off); }
    if (argc < 3) return 1;
    KIND = !strcmp(argv[1], "queue") ? 0 : !strcmp(argv[1], "stack") ? 1 : 2; L = atoi(argv[2]); setup();
    sm_search(&SP, 0);
    return 0;
}
int main(int argc, char **argv) { return vc_main(argc, argv, worker); }
