"""Per-property job lists (what is enumerated at each tier). See DESIGN.md section 2."""
from common.driver import Job

PROPS = {}


def prop(pid, level, rule, assumptions=(), guards=()):
    def deco(fn):
        PROPS[pid] = {"jobs": fn, "level": level, "rule": rule, "assumptions": list(assumptions),
                      "guards": list(guards)}
        return fn
    return deco


def need(key, minimum=1):
    def g(stats, outcomes):
        if stats.get(key, 0) < minimum:
            return "%s=%d < %d" % (key, stats.get(key, 0), minimum)
    return g


# ---------------------------------------------------------------- C16
@prop("C16", "exploration",
      "every byte string of length 0..3 over all 256 values (thorough: + length 4 over a 40-byte class alphabet, "
      "length 4..12 over {00,ff,a,%}) through URL/Base64/hex encode -> format oracle -> in-place decode; decoder "
      "acceptance of all %hh spellings; all query-string pair lists over {a,SP,&,=,%,+,LF,0x80}^{0..2}. "
      "non-trivial = needs an escape or Base64 padding, or a non-empty pair list",
      ["independent Base64 encoder and URL literal-set rule in the harness are the format references"],
      [need("evaluations", 1000000), need("nontrivial", 1000)])
def c16(tier, seed):
    H = ["inputmc/c16.c"]
    jobs = [Job("codec-len0", H, ["codec", 0, 0, 1], weight=0.01),
            Job("codec-len1", H, ["codec", 1, 0, 256], weight=0.01),
            Job("codec-len2", H, ["codec", 2, 0, 256], weight=0.1),
            Job("accept", H, ["accept"], weight=0.01)]
    n = 32
    for i in range(n):
        jobs.append(Job("codec-len3-%02d" % i, H, ["codec", 3, i * 256 // n, (i + 1) * 256 // n], weight=5))
    for i in range(8):
        jobs.append(Job("query1-%d" % i, H, ["query", 1, i, 8], weight=3))
    if tier == "thorough":
        for i in range(8):
            jobs.append(Job("alpha40-%d" % i, H, ["alpha", 4, 4, 40, i, 8], weight=3))
        for i in range(16):
            jobs.append(Job("alpha4-%d" % i, H, ["alpha", 4, 12, 4, i, 16], weight=12))
        for i in range(32):
            jobs.append(Job("query2-%d" % i, H, ["query", 2, i, 32], weight=10))
        for i in range(8):
            jobs.append(Job("query3-%d" % i, H, ["query", 3, i, 8], weight=4))
    return jobs

NOT_YET = {}
ENGINES = [
    {"name": "inputmc", "path": "engines/inputmc", "serves_properties": ["C16", "C17", "C18", "C19", "C20"],
     "kind_free_text": "bounded-exhaustive input enumeration against independent references, ASan/UBSan as oracle"},
]
