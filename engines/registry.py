"""Per-property job lists (what is enumerated at each tier). See DESIGN.md section 2."""
from common.driver import Job

PROPS = {}


CRASH = ["crash:*", "hang:*"]


def prop(pid, level, rule, assumptions=(), guards=(), classes=None):
    def deco(fn):
        PROPS[pid] = {"jobs": fn, "level": level, "rule": rule, "assumptions": list(assumptions),
                      "guards": list(guards), "classes": (list(classes) + CRASH) if classes else None}
        return fn
    return deco


def need(key, minimum=1):
    def g(stats, outcomes):
        if stats.get(key, 0) < minimum:
            return "%s=%d < %d" % (key, stats.get(key, 0), minimum)
    return g


# ---------------------------------------------------------------- C16
@prop("C16", "exploration",
      "every byte string of length 0..3 over all 256 values and of length 4..8 over {00,ff,a,%} (thorough: + length 4 over a 40-byte class alphabet, "
      "length 4..12 over {00,ff,a,%}) through URL/Base64/hex encode -> format oracle -> in-place decode; decoder "
      "acceptance of all %hh spellings; all query-string pair lists over {a,SP,&,=,%,+,LF,0x80}^{0..2}. "
      "non-trivial = needs an escape or Base64 padding, or a non-empty pair list",
      ["also: re-entrancy - every pair of calls of a menu run by two threads on private arguments under the E2 scheduler (scheduling points at read()); results equal the results of the calls made alone (asan flavour), no data race report (tsan flavour, scheduler invisible)",
       "independent Base64 encoder and URL literal-set rule in the harness are the format references"],
      [need("evaluations", 1000000), need("nontrivial", 1000)])
def c16(tier, seed):
    H = ["inputmc/c16.c"]
    jobs = [Job("codec-len0", H, ["codec", 0, 0, 1], weight=0.01),
            Job("codec-len1", H, ["codec", 1, 0, 256], weight=0.01),
            Job("codec-len2", H, ["codec", 2, 0, 256], weight=0.1),
            Job("accept", H, ["accept"], weight=0.01)]
    n = 32
    for i in range(n):
        jobs.append(Job("codec-len3-%02d" % i, H, ["codec", 3, i * 256 // n, (i + 1) * 256 // n], weight=5))
    for i in range(8):
        jobs.append(Job("query1-%d" % i, H, ["query", 1, i, 8], weight=3))
    for i in range(2):
        jobs.append(Job("alpha4-short-%d" % i, H, ["alpha", 4, 8, 4, i, 2], weight=2))     # multi-block inputs: lengths 4..8 over {00,ff,a,%}
    if tier == "thorough":
        for i in range(8):
            jobs.append(Job("alpha40-%d" % i, H, ["alpha", 4, 4, 40, i, 8], weight=3))
        for i in range(16):
            jobs.append(Job("alpha4-%d" % i, H, ["alpha", 4, 12, 4, i, 16], weight=12))
        for i in range(32):
            jobs.append(Job("query2-%d" % i, H, ["query", 2, i, 32], weight=10))
        for i in range(8):
            jobs.append(Job("query3-%d" % i, H, ["query", 3, i, 8], weight=4))
    return jobs + mtpure_jobs("codec")


def forbid(key):
    def g(stats, outcomes):
        if stats.get(key, 0) > 0:
            return "%s=%d (must be 0)" % (key, stats.get(key, 0))
    return g


def mtpure_jobs(fam):
    """re-entrancy family (engines/inputmc/mtpure.c): two threads inside the routines under the E2 scheduler, asan (results equal the
    results of the calls made alone) and tsan (no data race report; hand-offs invisible to the sanitizer)"""
    return [Job("mt-%s-%s" % (fam, fl), ["inputmc/mtpure.c", "sched/sched.c"], [fam, 3], flavour=fl,
                wraps=["read", "pthread_mutex_trylock", "pthread_mutex_unlock", "usleep"],
                nosan=["sched/sched.c"], weight=2, env={"VC_PIN": "1"}) for fl in ("asan", "tsan")]


# ---------------------------------------------------------------- C18
@prop("C18", "exploration",
      "every string of length 1..3 over all 256 byte values through MD5, MurmurHash3 x86_32 / x64_128, FNV-1 32/64 "
      "against independent references; every length 1..600 and 1023..1025, 4095..4097, 65535..65537 x buffer "
      "alignment 0..15 x content classes (zero, 0xff, incrementing, LCG, one non-zero byte / one NUL byte walking "
      "through every position) in exactly-ending heap blocks, repeated at another address with different trailing "
      "bytes (purity); qhashmd5_file over sizes 0..130, 32767..32769, 65537 x (offset, nbytes) grid; "
      "qhashmd5_file with read()/fstat() wrapped: every plan of <= 2 (thorough 3) deviating answers (1-byte read, half read, "
      "EIO, EINTR, truncated file, fstat failure) - short reads must still give the RFC digest, a failed call never true. "
      "non-trivial = contains a NUL byte or is longer than one byte",
      ["also: re-entrancy - every pair of calls of a menu run by two threads on private arguments under the E2 scheduler (scheduling points at read()); results equal the results of the calls made alone (asan flavour), no data race report (tsan flavour, scheduler invisible)",
       "reference implementations in engines/inputmc/c18.c, anchored at start-up on RFC 1321 / MurmurHash3 / FNV published vectors",
       "little-endian host"],
      [need("evaluations", 1000000), need("env_plans_2_deviations", 100), forbid("anchor_fail")],
      classes=["md5*", "murmur3*", "fnv1*", "asan:*"])
def c18(tier, seed):
    H = ["inputmc/c18.c"]
    jobs = [Job("small-len1", H, ["small", 1, 0, 256], weight=0.01), Job("small-len2", H, ["small", 2, 0, 256], weight=0.2),
            Job("file", H, ["file"], weight=2), Job("hugelen", H, ["hugelen", 1 if tier == "thorough" else 0], flavour="plain", weight=20),
            Job("fileenv", H, ["fileenv", 3 if tier == "thorough" else 2], wraps=["read", "fstat"], cflags=["-DC18_ENV=1"], weight=3)]
    # re-entrancy: two threads inside the hash functions under the E2 scheduler, scheduling points at read()
    for fl in ("asan", "tsan"):
        jobs.append(Job("mt-%s" % fl, H + ["sched/sched.c"], ["mt", 4 if tier == "thorough" else 3], flavour=fl, wraps=["read", "pthread_mutex_trylock", "pthread_mutex_unlock", "usleep"],
                        nosan=["sched/sched.c"], cflags=["-DC18_MT=1"], weight=4, env={"VC_PIN": "1"}))
    n = 32
    for i in range(n):
        jobs.append(Job("small-len3-%02d" % i, H, ["small", 3, i * 256 // n, (i + 1) * 256 // n], weight=5))
    ng = 16
    for i in range(ng):
        jobs.append(Job("grid-%02d" % i, H, ["grid", i, ng, 1 if tier == "thorough" else 0], weight=6))
    return jobs

# ---------------------------------------------------------------- C19
@prop("C19", "exploration",
      "all argument tuples: trim/trim_head/trim_tail over {SP,TAB,CR,LF,VT,a,0x80}^<=6; unchar over {\",',a}^<=5 x 4 quote "
      "pairs; replace sn/sr/tn/tr for sources {a,b,c}^<=5 x 14 tokens x 16 words; qstrcpy/qstrncpy for sources <=4, "
      "every size 1..n+2, every nbytes 0..n, overlapping src/dst at every offset; qstrtok/qstrtokenizer over "
      "{a,b,:,,}^<=6 x 3 delimiter sets; qstrgets over {a,b,LF,CR}^<=6 x size 2..9,32; rev/upper/lower over 10 boundary "
      "bytes ^<=4; qstrdup_between/qmemdup. non-trivial = the routine had something to change/split/truncate",
      ["also: re-entrancy - every pair of calls of a menu run by two threads on private arguments under the E2 scheduler (scheduling points at read()); results equal the results of the calls made alone (asan flavour), no data race report (tsan flavour, scheduler invisible)",
       "one-line reference definitions in engines/inputmc/c19.c", "a final empty token after a trailing delimiter may or may not be reported (documentation silent)"],
      [need("evaluations", 100000), need("nontrivial", 10000)])
def c19(tier, seed):
    H = ["inputmc/c19.c"]
    t = ["thorough"] if tier == "thorough" else []
    jobs = [Job(m, H, [m] + t, weight=w) for m, w in [("trim", 3), ("unchar", 1), ("copy", 2), ("tok", 3), ("gets", 3), ("misc", 2), ("dup", 2)]]
    for i in range(14):
        jobs.append(Job("replace-%02d" % i, H, ["replace", i] + t, weight=2))
    jobs.append(Job("replacebig", H, ["replacebig"], flavour="plain", weight=2))   # no sanitizer: the worst-case buffer of the repaired code is 4 GiB of untouched pages
    jobs.append(bigfmt_job("qstring"))      # qstrdupf / qstrcatf across the 1024 * 2^k growth thresholds of the formatting buffer
    return jobs + mtpure_jobs("string")

def acdeep_jobs(tier):
    X = 1 if tier == "thorough" else 0
    H = ["inputmc/c20.c"]
    return [Job("acdeep", H, ["acdeep", 600 if X else 300, X], wraps=["popen"], weight=3),
            Job("o0-acdeep", H, ["acdeep", 600 if X else 300, X], wraps=["popen"], flavour="o0", weight=3)]


# ---------------------------------------------------------------- C17
@prop("C17", "exploration",
      "every sequence of <= L tokens over the significant tokens of each format, as a NUL-terminated string in an exactly "
      "sized heap block: URL {%,+,a,4,G,SP,0x80} L=7, Base64 {A,z,=,+,/,LF,0xff} L=7, hex {0,a,F,g,0xff} L=8, query "
      "{&,=,%,+,a,SP} L=7, INI 16 tokens incl. ${a} ${b} ${ } $ { [ ] # LF SP ${%E} ${!x} L=5, INI file with @INCLUDE "
      "L=5, Apache 14 tokens incl. quotes, backslash, < </ > # LF L=5 x 2 flag sets, and over-long lines around the "
      "4096/8192 fgets boundary (thorough: L+1), and Apache documents of d nested sections for every d = 1..300 (600) and 400..20000. Oracle: no ASan/UBSan report, no crash, no hang (allocation budget + "
      "CPU watchdog), decoders never grow the string. non-trivial = non-empty / contains a structural token",
      ["also: re-entrancy - every pair of calls of a menu run by two threads on private arguments under the E2 scheduler (scheduling points at read()); results equal the results of the calls made alone (asan flavour), no data race report (tsan flavour, scheduler invisible)",
       "popen is wrapped to fail (${!cmd} never executes)", "self-including files (@INCLUDE of the file itself) are outside the bound"],
      [need("evaluations", 1000000)])
def c17(tier, seed):
    H = ["inputmc/c17.c"]
    W = ["popen", "malloc"]
    X = 1 if tier == "thorough" else 0
    jobs = []
    def fam(name, L, shards, w):
        for i in range(shards):
            jobs.append(Job("%s-%d" % (name, i), H, [name, L, i, shards], wraps=W, weight=w))
    fam("url", 7 + X, 2, 2); fam("b64", 7 + X, 2, 2); fam("hex", 8 + X, 1, 1); fam("query", 7 + X, 2, 3)
    fam("ini", 5 + X, 16 if X else 6, 8); fam("inifile", 5 + X, 16 if X else 8, 3)
    fam("apache0", 5 + X, 16 if X else 6, 8); fam("apache3", 5 + X, 16 if X else 6, 8)
    fam("longline", 0, 1, 4); fam("iniref", 4 + X, 8 if X else 4, 3)
    # the parser families again in the unoptimised, uninstrumented build (uninitialised-stack oracle)
    for name, L, shards in (("apache0", 5 + X, 4), ("apache3", 5 + X, 4), ("ini", 5 + X, 4), ("inifile", 4 + X, 2), ("query", 6 + X, 1)):
        for i in range(shards):
            jobs.append(Job("o0-%s-%d" % (name, i), H, [name, L, i, shards], wraps=W, flavour="o0", weight=4))
    return jobs + acdeep_jobs(tier) + mtpure_jobs("parse")

# ---------------------------------------------------------------- C20
@prop("C20", "exploration",
      "generator-as-oracle. INI: every document of <= 4 lines (thorough 5) over 16 line kinds (comment, blank, [s], [t], [], "
      "k=v, k=${k'}, k=${s.k'}, k=${%ENV}, k=${undefined}, k without separator, k=${t.}) x 8 whitespace/CRLF layouts x "
      "separators = and :, expected value = fixpoint of replacing defined references (documents whose references are "
      "self-referential are not well-formed: skipped and counted); @INCLUDE through qconfig_parse_file at first/middle/"
      "last line, relative and absolute. Apache: (i) every option declaration TAKE0..5/TAKEALL x per-argument and default "
      "types STR/INT/FLOAT/BOOL x argument vectors over 34 values incl. all 24 boolean spellings; (ii) every argument list "
      "of <= 3 arguments over 12 strings x bare/single/double quoting x 4 separators x 2 line endings; (iii) every document "
      "of nested blocks (<= 2 items per block, nesting depth <= 2; thorough depth 3) over scoped options, two section options, "
      "unregistered and wrong-case names, an unregistered section (with QAC_IGNOREUNKNOWN), blanks before the closing bracket, closes that match / mismatch / are missing, x 4 flag sets (one section id above bit 31); "
      "(iv) d nested sections for every d = 1..300 (600): level == number of parents, beyond 255 only a refusal naming line 256; "
      "INI files with <= 3 (4) lines over four include directives whose file names are prefixes of each other and values containing directive text. "
      "non-trivial = contains a reference/section, an accepted typed directive, a quoted argument, or a section",
      ["also: re-entrancy - every pair of calls of a menu run by two threads on private arguments under the E2 scheduler (scheduling points at read()); results equal the results of the calls made alone (asan flavour), no data race report (tsan flavour, scheduler invisible)",
       "the generator's meaning of each document is the oracle", "popen wrapped to fail", "count of ignored unknown directives: either convention accepted",
       "float syntax = digits with one inner dot (as the source documents); '1.' and '.5' are not floats"],
      [need("evaluations", 100000), need("nontrivial", 10000)])
def c20(tier, seed):
    H = ["inputmc/c20.c"]
    W = ["popen"]
    X = 1 if tier == "thorough" else 0
    jobs = []
    n = 16
    for i in range(n):
        jobs.append(Job("ini-%02d" % i, H, ["ini", 4 + X, i, n], wraps=W, weight=10 if X else 3))
    for i in range(4):
        jobs.append(Job("inifile-%d" % i, H, ["inifile", i, 4], wraps=W, weight=3))
    jobs.append(Job("inilong", H, ["inilong"], wraps=W, weight=1))
    jobs.append(Job("inimulti", H, ["inimulti", 3 + X], wraps=W, weight=2))
    jobs.append(Job("iniref", H, ["iniref", 5 + X], wraps=W, weight=3))   # 8 reference-related line kinds, one line more than the full enumeration
    jobs.append(Job("acobject", H, ["acobject"], wraps=W, weight=1))
    jobs.append(Job("o0-acobject", H, ["acobject"], wraps=W, flavour="o0", weight=1))
    for p in range(3):
        jobs.append(Job("actype-%d" % p, H, ["actype", p], wraps=W, weight=4))
    for i in range(4):
        jobs.append(Job("acquote-%d" % i, H, ["acquote", 3, i, 4], wraps=W, weight=4))
    for f, sh in ((0, 1), (1, 12), (2, 14), (3, 10)):
        for i in range(sh):
            jobs.append(Job("acstruct-f%d-%02d" % (f, i), H, ["acstruct", f, 2, 2 + (X if f != 2 else 0), i, sh], wraps=W, weight=12))   # flag set 2 carries the unregistered-section kind: depth 3 of it is > 10^8 documents
    # unoptimised, uninstrumented build (uninitialised-stack oracle) for the rejecting / nesting paths
    for f in (0, 1):
        jobs.append(Job("o0-acstruct-f%d" % f, H, ["acstruct", f, 2, 2, 0, 1 if f == 0 else 6], wraps=W, flavour="o0", weight=6))
    jobs.append(Job("o0-actype-0", H, ["actype", 0], wraps=W, flavour="o0", weight=2))
    jobs.append(Job("o0-acquote-0", H, ["acquote", 2, 0, 1], wraps=W, flavour="o0", weight=2))
    jobs.append(Job("o0-ini-0", H, ["ini", 3, 0, 1], wraps=W, flavour="o0", weight=2))
    return jobs + acdeep_jobs(tier) + mtpure_jobs("parse")

VA_WRAPS = ["malloc", "calloc", "realloc", "strdup", "free"]


def bigfmt_job(which):
    return Job("bigfmt-%s" % which, ["seqmc/bigfmt.c"], [which], wraps=VA_WRAPS, weight=0.5)


def tree_jobs(tier, which):
    """shared job list of the qtreetbl searches; which = 'map' | 'walk' | 'all'"""
    H = ["seqmc/tree.c"]
    X = tier == "thorough"
    jobs = []
    if which in ("map", "all"):
        for cfg in range(4):
            jobs.append(Job("tree-map-cfg%d-U%d" % (cfg, 13 if X else 11), H, ["map", cfg, 13 if X else 11, 1], wraps=VA_WRAPS, weight=30 if X else 5))
            if X and cfg in (0, 2):
                jobs.append(Job("tree-map-cfg%d-U14" % cfg, H, ["map", cfg, 14, 1], wraps=VA_WRAPS, weight=100))
            jobs.append(Job("tree-map-cfg%d-U%d-values" % (cfg, 7 if X else 5), H, ["map", cfg, 7 if X else 5, 4], wraps=VA_WRAPS, weight=20 if X else 5))
    if which in ("map", "all"):
        jobs.append(bigfmt_job("qtreetbl"))
        # histories without merging (hidden state the canonical key cannot know): from a tree of 5 keys every sequence of <= 3 (thorough 4) operations, reads included
        for cfg in (0, 2):
            for i in range(4):
                jobs.append(Job("tree-hist-cfg%d-%d" % (cfg, i), H, ["map", cfg, 7, 2, "hist", 5, 4 if X else 3, i, 4], wraps=VA_WRAPS, weight=10))
    if which in ("walk", "all"):
        jobs.append(Job("tree-walk-U1", H, ["walk", 1, 0, 1], wraps=VA_WRAPS, weight=2))
        jobs.append(Job("tree-walk-U2", H, ["walk", 2, 0, 1], wraps=VA_WRAPS, weight=40))
        for ep in (1, 127, 128, 253, 254, 255):
            jobs.append(Job("tree-walk-U3-d%d-e%d" % (22 if X else 14, ep), H, ["walk", 3, 22 if X else 14, ep], wraps=VA_WRAPS, weight=30 if X else 8))
        for ep in (1, 254):
            jobs.append(Job("tree-walk-U4-d%d-e%d" % (13 if X else 9, ep), H, ["walk", 4, 13 if X else 9, ep], wraps=VA_WRAPS, weight=40 if X else 8))
        # binary keys of differing lengths (prefix pairs), probes that are prefixes / extensions of keys
        jobs.append(Job("tree-walk-bin-U6-d%d" % (8 if X else 7), H, ["walk", 6, 8 if X else 7, 1, 1], wraps=VA_WRAPS, weight=30 if X else 8))
        jobs.append(Job("tree-walk-bin-U7-d%d" % (7 if X else 6), H, ["walk", 7, 7 if X else 6, 1, 1], wraps=VA_WRAPS, weight=30 if X else 6))
        # a user comparator whose order is NOT the byte order (descending): whatever compares behind the comparator's back shows
        jobs.append(Job("tree-walk-desc-U5-d%d" % (8 if X else 7), H, ["walk", 5, 8 if X else 7, 1, 2], wraps=VA_WRAPS, weight=30 if X else 8))
        if X:
            for ep in (1, 254):
                jobs.append(Job("tree-walk-U5-d10-e%d" % ep, H, ["walk", 5, 10, ep], wraps=VA_WRAPS, weight=40))
    return jobs


@prop("C01", "model_checking",
      "BFS closure of every tree state reachable by put/remove/clear over a universe of U keys (string keys / binary keys of "
      "differing lengths / binary keys under a descending user comparator / string keys under a length-first comparator) and "
      "up to 3 value versions (1 byte, 4 bytes with embedded+trailing NUL, empty); from every state every operation, then get "
      "of every universe key (both newmem modes, errno), size, find_min, find_max against a sorted-array model. "
      "A state is non-trivial when its canonical (shape, colour, key, value) string is new",
      ["also: histories without merging - from a non-initial state every sequence of <= 3 (thorough 4) operations, reads included as operations, the last one with all oracles (hidden state the canonical key cannot contain)",
       "put of a value size no allocator can satisfy as an operation (a failed put leaves map and tree as they were)",
       "reference ordering and sorted-array model in engines/seqmc/tree.c", "every transition is an execution of the real code: traces_validated_against_impl = transitions"],
      [need("states", 1000), need("transitions", 10000), forbid("replay_divergence")], classes=["map:*", "fmt:*"])
def c01(tier, seed):
    return tree_jobs(tier, "map")


@prop("C02", "model_checking",
      "same closure as C01; after every transition (successful or failed, incl. removal of absent keys and replacement) an "
      "independent checker walks the public node fields: BST order under the table's ordering, black root, no red-red, equal "
      "black height, no right-leaning lone red link, node count = size(); qtreetbl_check() must agree; with user comparators "
      "every lookup is charged and must stay within 2*log2(n+1) comparisons",
      ["also: histories without merging - from a non-initial state every sequence of <= 3 (thorough 4) operations, reads included as operations, the last one with all oracles (hidden state the canonical key cannot contain)",
       "put of a value size no allocator can satisfy as an operation: 'after every operation, whether it succeeded or failed'",
       "independent structure checker in engines/seqmc/tree.c"],
      [need("states", 1000), need("structure_checks", 10000), need("rotate_left"), need("rotate_right"), need("flip_color"),
       need("fournode_states"), need("lookup_cost_checks", 1000), forbid("replay_divergence")], classes=["llrb:*"])
def c02(tier, seed):
    return tree_jobs(tier, "map")


@prop("C03", "model_checking",
      "BFS over histories of put / remove / complete walk (both newmem modes) / walk abandoned after 1 or 2 steps / "
      "find_nearest for every probe (below min, each key, each gap, above max) / find_nearest + getnext to the end; canonical "
      "state keeps the table epoch, every node's stamp and parent link. Full closure for U = 1 and U = 2 (every 8-bit epoch "
      "value incl. wrap), depth <= 14 for U = 3 from start epochs 1,127,128,253,254,255 and depth <= 9 for U = 4 from epochs 1,254 (thorough: 22 / 13, U = 5 depth 10), start epochs reached through the API. Oracle: a walk from a zeroed cursor returns exactly the sorted model entries, then ends",
      ["model of 'a walk was left unfinished' in engines/seqmc/tree.c"],
      [need("states", 10000), need("max_depth", 200), forbid("replay_divergence")], classes=["walk:*"])
def c03(tier, seed):
    # plus the map searches over values of different sizes: each of their transitions ends with two complete walks
    return tree_jobs(tier, "walk") + [j for j in tree_jobs(tier, "map") if j.name.endswith("-values")]


@prop("C04", "model_checking",
      "same search as C03, plus a depth-bounded search over 6-7 binary keys of differing lengths (prefix pairs) with probes that are keys, prefixes of keys and extensions of keys; from every state find_nearest for every probe: floor semantics (equal key, else greatest smaller, "
      "else smallest), ENOENT on empty, answer compared with a model that only knows the key set (history independence), "
      "termination by a comparator-call budget of 8(n+2); continuing with getnext visits every key exactly once when no walk "
      "was left unfinished, and never a key twice otherwise",
      ["comparator budget as deterministic termination oracle; CPU watchdog for getnext"],
      [need("states", 10000), forbid("replay_divergence")], classes=["nearest:*", "nearwalk:*"])
def c04(tier, seed):
    return tree_jobs(tier, "walk")


def hashtbl_jobs(tier):
    H = ["seqmc/hashtbl.c"]
    X = tier == "thorough"
    jobs = []
    for rng in ([1, 2, 3, 5, 0] if X else [1, 2, 3, 0]):
        jobs.append(Job("hashtbl-r%d" % rng, H, [rng, 6 if X else 5, 2], wraps=VA_WRAPS, weight=10))
    jobs.append(Job("hashtbl-r2-twin", H, [2, 5 if X else 4, 3], wraps=VA_WRAPS, weight=10))
    jobs.append(Job("hashtbl-r2-putint", H, [2, 4, 4], wraps=VA_WRAPS, weight=10))
    for rng in (1, 2):   # value universe with a value of length 0 (valid pointer, size 0) next to non-empty ones
        jobs.append(Job("hashtbl-r%d-empty" % rng, H, [rng, 4 if X else 3, 5], wraps=VA_WRAPS, weight=10))
    for rng in (1, 7, 0):
        jobs.append(Job("hashtbl-pair-r%d" % rng, H, ["pair", rng], wraps=VA_WRAPS, weight=2))
    # histories without merging (hidden state the canonical key cannot know): from a table of 3 keys every sequence of <= 3 (thorough 4) operations, reads included
    for rng in (1, 3):
        for i in range(4):
            jobs.append(Job("hashtbl-hist-r%d-%d" % (rng, i), H, [rng, 4, 2, "hist", 3, 4 if X else 3, i, 4], wraps=VA_WRAPS, weight=10))
    jobs.append(bigfmt_job("qhashtbl"))
    jobs.append(Job("hashtbl-hugerange", H, ["hugerange"], wraps=VA_WRAPS, flavour="plain", weight=3))   # no sanitizer: 24 GB of untouched calloc pages
    return jobs


@prop("C05", "model_checking",
      "BFS closure of every qhashtbl state reachable by put / putstr / putint / remove (present and absent) / clear over 5 "
      "string keys incl. the empty key (6 in thorough) and 3-4 value versions (two byte values of equal length that agree up to an embedded NUL, string, integer), for "
      "ranges 1, 2, 3 (5) and the default 1000; canonical state = ordered chain of every slot. After every transition: get "
      "(both newmem), getstr, getint, size, errno, and complete getnext walks in both newmem modes against a map model",
      ["also: histories without merging - from a non-initial state every sequence of <= 3 (thorough 4) operations, reads included as operations, the last one with all oracles (hidden state the canonical key cannot contain)",
       "value universe with a value of length 0 (valid pointer, size 0); put of an unallocatable value size as an operation",
       "map model in engines/seqmc/hashtbl.c; slot prediction by an independent MurmurHash3"],
      [need("states", 500), need("unlink_head"), need("unlink_middle"), need("unlink_tail"), need("max_chain", 3), forbid("replay_divergence")],
      classes=["map:*", "walk:*", "fmt:*"])
def c05(tier, seed):
    return hashtbl_jobs(tier)


def listtbl_jobs(tier):
    H = ["seqmc/listtbl.c"]
    X = tier == "thorough"
    jobs = []
    for opt in range(16):
        jobs.append(Job("listtbl-opt%02d" % opt, H, [opt, 5 if X else 4, 4 if X else 3], wraps=VA_WRAPS, weight=30 if X else 4))
    for opt in (0, 15) if not X else (0, 5, 10, 15):
        jobs.append(Job("listtbl-values-opt%02d" % opt, H, ["values", opt], wraps=VA_WRAPS, weight=6))
    for opt in (0, 2, 4, 8, 12):
        jobs.append(Job("listtbl-multi-opt%02d" % opt, H, ["multi", opt], wraps=VA_WRAPS, weight=1))
    for opt in (0, 1, 3, 9):
        jobs.append(Job("listtbl-pair-opt%02d" % opt, H, ["pair", opt], wraps=VA_WRAPS, weight=2))
    jobs.append(bigfmt_job("qlisttbl"))
    # histories without merging (hidden state the canonical key cannot know): from a table of 3 entries every sequence of <= 3 (thorough 4) operations, get/getmulti included
    for opt in (0, 3, 6, 15):
        for i in range(2):
            jobs.append(Job("listtbl-hist-opt%02d-%d" % (opt, i), H, [opt, 5, 2, "hist", 3, 4 if X else 3, i, 2], wraps=VA_WRAPS, weight=8))
    return jobs


@prop("C08", "model_checking",
      "for each of the 16 combinations of UNIQUE/CASEINSENSITIVE/INSERTTOP/LOOKUPFORWARD: BFS closure of every list-table "
      "state of length <= 3 (thorough 5) over names {a, A, b} and 3-4 value versions, ops putstr/putint/put, remove(name incl. "
      "an absent one), removeobj of the i-th entry met during a walk (walk continues), sort, clear; after every transition: "
      "get (both newmem), getstr, getint, getmulti(+freemulti), name-filtered and unfiltered getnext walks for every name "
      "spelling, size, link structure, and save(encode)/load into fresh tables (same options, and appending); plus the "
      "value dimension of save/load: every string of length 0..3 over 16 significant bytes, alone and beside a second entry",
      ["also: histories without merging - from a non-initial state every sequence of <= 3 (thorough 4) operations, reads included as operations, the last one with all oracles (hidden state the canonical key cannot contain)",
       "ordered-multimap model in engines/seqmc/listtbl.c", "load is checked against 'put every saved line in file order into a table with the loader's options'; "
       "for an appending loader that is the saved order"],
      [need("states", 1000), need("saveload_roundtrips", 1000), forbid("replay_divergence")],
      classes=["multimap:*", "saveload:*", "list:*", "fmt:*"])
def c08(tier, seed):
    return listtbl_jobs(tier)


def list_jobs(tier):
    X = tier == "thorough"
    jobs = [Job("list-L%d" % (7 if X else 5), ["seqmc/list.c"], [7 if X else 5], wraps=VA_WRAPS, weight=30)]
    for kind in ("queue", "stack", "grow"):
        jobs.append(Job("%s-L%d" % (kind, 7 if X else 5), ["seqmc/qsg.c"], [kind, 7 if X else 5], wraps=VA_WRAPS, weight=10))
    jobs.append(bigfmt_job("qgrow")); jobs.append(bigfmt_job("qqueue")); jobs.append(bigfmt_job("qstack"))
    # histories without merging (hidden state the canonical key cannot know): from lists of 4 and 5 elements every sequence of <= 3 (thorough 4 from 4 elements) operations, reads included
    for n, depth, shards in ((4, 3, 4), (5, 3, 4)) + (((4, 4, 16),) if X else ()):
        for i in range(shards):
            jobs.append(Job("list-hist-n%d-d%d-%d" % (n, depth, i), ["seqmc/list.c"], [n + 2, "hist", n, depth, i, shards], wraps=VA_WRAPS, weight=12))
    return jobs


@prop("C09", "model_checking",
      "BFS closure of every qlist state of length <= 5 (thorough 7) over elements {x, y\\0, a\\0b, \\0} and size limits "
      "0..3: addfirst/addlast, addat / popat / removeat for every index in [-n-2, n+2] and the first/last variants, reverse, "
      "clear, setsize; after every transition getat of every index in [-n-2, n+2] (both newmem), getfirst/getlast, size, "
      "datasize, toarray, tostring, getnext walks, link structure, and 'refused => nothing changed'. Queue, stack and grow "
      "buffer: the same search through push/pushstr/pushint, pop/popstr/popint/popat, get*/getat, setsize, clear and "
      "add/addstr/addstrf, toarray, tostring, size, datasize, clear (FIFO / LIFO / concatenation models)",
      ["also: histories without merging - from a non-initial state every sequence of <= 3 (thorough 4) operations, reads included as operations, the last one with all oracles (hidden state the canonical key cannot contain)",
       "formatted pieces of every length 0..1100",
       "sequence models in engines/seqmc/list.c and qsg.c"],
      [need("states", 1000), forbid("replay_divergence")], classes=["seq:*", "fmt:*"])
def c09(tier, seed):
    return list_jobs(tier)


def vector_jobs(tier):
    X = tier == "thorough"
    jobs = []
    # element sizes on both sides of the usual fixed staging-buffer sizes (16, 32, 64): a routine that moves elements through a
    # scratch buffer behaves differently above it
    sizes = [1, 2, 3, 4, 7, 8, 16, 17, 31, 33, 64, 65, 100] if X else [1, 3, 8, 16, 33, 65]
    for cap in range(4):
        for osz in sizes:
            for pol in range(3):
                jobs.append(Job("vector-c%d-s%d-p%d" % (cap, osz, pol), ["seqmc/vector.c"], [cap, osz, pol, 6 if X else 4], wraps=VA_WRAPS, weight=8 if X else 2))
    # histories without merging (hidden state the canonical key cannot know): from a vector of 4 elements every sequence of <= 3 operations, reads included
    for cap, osz, pol in ((0, 8, 2), (4, 3, 0)) + (((2, 33, 1),) if X else ()):
        for i in range(4):
            jobs.append(Job("vector-hist-c%d-s%d-p%d-%d" % (cap, osz, pol, i), ["seqmc/vector.c"], [cap, osz, pol, 6, "hist", 4, 3, i, 4], wraps=VA_WRAPS, weight=10))
    return jobs


@prop("C10", "model_checking",
      "for initial capacity 0..3 x element size {1,3,8,16} (thorough {1,2,3,4,7,8,16,64}) x growth policy exact/linear/double: "
      "BFS closure of every vector state of <= 4 (thorough 6) elements over 3 element values (one all-zero): addfirst/addlast, "
      "addat/setat/popat/removeat for every index in [-n-2, n+2] and the first/last variants, reverse, resize(0..n+2), resize and constructor with capacities SIZE_MAX/objsize+1, +2 and SIZE_MAX (refused, nothing changed), clear; "
      "after every transition getat of every index (both newmem), getfirst/getlast, size, toarray, getnext walks, "
      "capacity >= count, errno of refusals, 'refused => unchanged'. Canonical state = (capacity, contents)",
      ["also: histories without merging - from a non-initial state every sequence of <= 3 (thorough 4) operations, reads included as operations, the last one with all oracles (hidden state the canonical key cannot contain)",
       "element sizes on both sides of 16/32/64",
       "array model in engines/seqmc/vector.c; the model does not predict the capacity, only capacity >= count"],
      [need("states", 1000), need("capacity_growths", 100), need("resize_to_zero", 100), forbid("replay_divergence")], classes=["array:*"])
def c10(tier, seed):
    return vector_jobs(tier)


def hasharr_jobs(tier):
    X = tier == "thorough"
    jobs = [Job("hasharr-bigkey", ["imagemc/hasharr.c"], ["bigkey"], wraps=VA_WRAPS, weight=1)]
    jobs.append(Job("hasharr-ctor", ["imagemc/hasharr.c"], ["ctor", 1200 if X else 600], wraps=VA_WRAPS, weight=1))
    jobs.append(Job("hasharr-chain", ["imagemc/hasharr.c"], ["chain", 33000], wraps=VA_WRAPS, flavour="asan" if X else "plain", weight=30))
    for m in ([1, 2, 3, 4, 5, 6] if X else [1, 2, 3, 4]):
        jobs.append(Job("hasharr-M%d" % m, ["imagemc/hasharr.c"], [m], wraps=VA_WRAPS, weight=10 ** max(0, m - 2)))
    if not X:   # quick: M = 5 as every history of <= 4 operations (its closure takes 90 s and is part of the thorough tier)
        jobs.append(Job("hasharr-M5-depth4", ["imagemc/hasharr.c"], [5, 4], wraps=VA_WRAPS, weight=1000))
    else:       # thorough: M = 7 as every history of <= 5 operations (its closure does not finish within the deadline)
        jobs.append(Job("hasharr-M7-depth5", ["imagemc/hasharr.c"], [7, 5], wraps=VA_WRAPS, weight=100000))
    jobs.append(bigfmt_job("qhasharr"))
    return jobs


@prop("C06", "model_checking",
      "BFS over every reachable memory image of a static hash table with M = 1..4 slots plus every history of <= 4 operations for M = 5 (thorough: closure for M = 1..6, <= 5 operations for M = 7) and a universe of six "
      "keys chosen with an independent MurmurHash3: two short keys with home slot 0, one with home 1, one with home M-1 "
      "(wrap-around probing; the first collision lands in a foreign home slot and later forces relocation), two 21-byte keys "
      "with the same length and 16-byte prefix and home 1 (matched by length+prefix+MD5 only; two collision chains interleave); value lengths 1, 32, 33, 98, 99 on "
      "both sides of every slot boundary plus a second 33-byte value equal to the first up to an embedded NUL. Ops: put / put_by_obj, remove / remove_by_obj, remove_by_idx(every slot), clear, the documented getnext + remove_by_idx(idx-1) loop. "
      "Oracle: map model for get of every key and a full getnext walk; size() triple = (keys, M, sum of slots(len)); a put "
      "succeeds iff a slot is free and the value fits into free + released slots, else ENOBUFS, other keys untouched, own key "
      "unchanged or absent; remove_by_idx succeeds iff that slot holds a key (indexes -1, M, M+1 included). Plus a 65535-byte key "
      "single case, the constructor for every region size 1..600 bytes (thorough 1200), and one collision chain of every "
      "length 1..32768 in a 33005-slot table (keys by inverting MurmurHash3; the bucket counter of the image is 16 bits wide)",
      ["map + slot-accounting model in engines/imagemc/hasharr.c", "slots(len) = 1 + ceil(max(0, len-32)/66)"],
      [need("states", 5000), need("relocations"), need("promotions"), need("slots_extension_seen"), need("slots_collision_seen"), forbid("replay_divergence")],
      classes=["space:*", "image:get-*", "image:remove*", "image:walk-*", "image:bigkey", "image:ctor", "fmt:*"])
def c06(tier, seed):
    return hasharr_jobs(tier)


@prop("C07", "model_checking",
      "same search as C06. State = byte image of the user region; every transition restores it by memcpy into a fresh heap "
      "block at another address and alignment (offsets 0,4,8,12 mod 16 in rotation) that ends exactly at the region end, "
      "attaches a new handle and operates; then (a) a second live handle on the same memory and (b) a third handle on a byte "
      "copy at yet another address must observe exactly the same gets, walk and size triple; (c) an independent "
      "well-formedness checker validates slot kinds, collision counts, home indices, value chains, back links, full blocks, "
      "single ownership of every slot and header counters after every operation; (d) every transition is repeated from an "
      "image whose unused bytes are 0xFF instead of 0 and must give the same result and canonical successor; (e) guard "
      "bytes in front of the region and the ASan red zone behind it catch any write outside",
      ["the observe-only relocated copy is placed at every alignment 0..7",
       "cross-process sharing is simulated by byte copies and extra handles in one process"],
      [need("states", 5000), need("wellformed_checks", 10000), need("residue_differentials", 10000), need("relocations"), need("promotions")],
      classes=["image:*", "guard:*"])
def c07(tier, seed):
    return hasharr_jobs(tier)


def all_container_jobs(tier):
    jobs = tree_jobs(tier, "all") + hashtbl_jobs(tier) + listtbl_jobs(tier) + list_jobs(tier) + vector_jobs(tier)
    if "hasharr_jobs" in globals():
        jobs += hasharr_jobs(tier)
    return jobs


def o0_container_jobs(tier):
    """the container searches once more at smaller bounds in the unoptimised, uninstrumented build with a dirtied stack
    (reads of uninitialised automatic variables show their real stack contents there); part of C11 only"""
    X = tier == "thorough"
    F = dict(wraps=VA_WRAPS, flavour="o0")
    jobs = [Job("o0-tree-map-cfg1-U%d" % (10 if X else 9), ["seqmc/tree.c"], ["map", 1, 10 if X else 9, 1], weight=3, **F),
            Job("o0-tree-map-cfg3-values", ["seqmc/tree.c"], ["map", 3, 5, 3], weight=3, **F),
            Job("o0-tree-walk-U3", ["seqmc/tree.c"], ["walk", 3, 10, 254], weight=3, **F),
            Job("o0-tree-walk-bin", ["seqmc/tree.c"], ["walk", 6, 6, 1, 1], weight=3, **F),
            Job("o0-hashtbl-r2", ["seqmc/hashtbl.c"], [2, 5, 2], weight=2, **F),
            Job("o0-listtbl-opt03", ["seqmc/listtbl.c"], [3, 3, 3], weight=2, **F), Job("o0-listtbl-opt12", ["seqmc/listtbl.c"], [12, 3, 3], weight=2, **F),
            Job("o0-listtbl-multi", ["seqmc/listtbl.c"], ["multi", 0], weight=1, **F),
            Job("o0-list-L4", ["seqmc/list.c"], [4], weight=2, **F), Job("o0-queue-L4", ["seqmc/qsg.c"], ["queue", 4], weight=1, **F),
            Job("o0-stack-L4", ["seqmc/qsg.c"], ["stack", 4], weight=1, **F), Job("o0-grow-L4", ["seqmc/qsg.c"], ["grow", 4], weight=1, **F),
            Job("o0-vector-c1-s3-p2", ["seqmc/vector.c"], [1, 3, 2, 4], weight=2, **F), Job("o0-vector-c0-s8-p1", ["seqmc/vector.c"], [0, 8, 1, 4], weight=2, **F),
            Job("o0-hasharr-M4", ["imagemc/hasharr.c"], [4], weight=4, **F), Job("o0-bigfmt", ["seqmc/bigfmt.c"], ["all"], weight=1, **F)]
    return jobs


@prop("C11", "model_checking",
      "the complete C01-C10 searches (every reachable container state over the bounded universes, every operation from every "
      "state) executed on an ASan+UBSan build with -fno-builtin (memcpy overlap is checked), all caller data in exactly-sized "
      "heap blocks; oracle: zero sanitizer reports on any transition, live-block ledger (--wrap of malloc/calloc/realloc/"
      "strdup/free) back to its start value after free() of the container at the end of every replayed history, static hash "
      "table region exactly sized and fenced by guard zones; qhashtbl copying scans with a removal after the 1st/2nd/3rd element and the qtreetbl remove-and-rewind loop (both documented as allowed); the searches run once more at smaller bounds in an unoptimised, "
      "uninstrumented build with the stack filled with 0xA5 before every case (uninitialised automatic variables)",
      ["UBSan alignment and nonnull-attribute checks are disabled (MurmurHash3 word loads; memcpy(p, NULL, 0) idiom)"],
      [need("states", 10000), forbid("replay_divergence")], classes=["asan:*", "leak:*", "guard:*", "scanrm:*", "walkrm:*"])
def c11(tier, seed):
    return all_container_jobs(tier) + o0_container_jobs(tier)


@prop("C12", "model_checking",
      "the complete C01-C10 searches in ownership mode: every key/value handed to put/add/push/set lives in a fresh exactly-"
      "sized heap block that is overwritten with 0xA5 and freed the moment the call returns; every pointer obtained with the "
      "copy flag, from pop*, find_min/max, find_nearest(newmem), getnext(newmem), getmulti(newmem), toarray/tostring and the "
      "static hash table's get*/getnext is parked with its expected bytes, re-verified while the container is alive and "
      "again after the container has been freed, then freed by the harness; values include embedded/trailing NULs and an "
      "all-zero element. Wrong bytes on a later read (aliasing) are caught by the functional oracles of the same search",
      ["use-after-free of an aliased caller buffer is reported by ASan as well"],
      [need("copies_verified", 100000), need("inputs_scribbled", 100000), forbid("replay_divergence")],
      classes=["ownership:*", "fmt:*", "asan:*use-after-free*", "asan:*double-free*", "asan:*bad-free*", "map:get-value", "map:get-missing", "multimap:get-first-match", "seq:get-value", "array:get-value", "seq:content", "array:content", "image:get-value", "walk:value"])
def c12(tier, seed):
    return all_container_jobs(tier)


def functions_covered(stats, outcomes, notes):
    """C14: the harness's function table must name every extern prototype of the lockable containers' headers"""
    import re, os
    from common.driver import REPO
    have = set()
    for n in notes:
        if n.startswith("functions "):
            have |= set(n.split(":", 1)[1].split())
    missing = []
    for h in ("qtreetbl", "qhashtbl", "qlisttbl", "qlist", "qvector", "qqueue", "qstack", "qgrow"):
        txt = open(os.path.join(REPO, "include/qlibc/containers/%s.h" % h)).read()
        for fn in sorted(set(re.findall(r"extern [^;]*?\b(%s_[a-z_]+)\(" % h, txt))):
            if fn.endswith(("_free", "_byte_cmp", "_check")):
                continue   # free() ends every case; byte_cmp/check take no lock and run in every digest
            if fn not in have:
                missing.append(fn)
    if missing:
        return "function table does not cover: " + " ".join(missing)


functions_covered.wants_notes = True


FAULT_SUBJECTS = ["qtreetbl", "qhashtbl:1", "qhashtbl:2", "qlisttbl:0", "qlisttbl:1", "qlisttbl:4", "qlist", "qqueue", "qstack", "qgrow",
                  "qvector:0", "qvector:1", "qvector:2"]
FAULT_WRAPS = VA_WRAPS + ["pthread_mutex_trylock", "pthread_mutex_unlock", "usleep"]


def fault_jobs(tier, which):
    H = ["faultenum/fault.c"]
    jobs = []
    subs = FAULT_SUBJECTS + (["qhasharr"] if which == "C15" else ["qlog"])
    for sname in subs:
        for ts in ((0, 1) if which == "C15" else (1,)):
            if sname in ("qhasharr",) and ts == 1:
                continue
            jobs.append(Job("fault-%s-ts%d" % (sname.replace(":", "_"), ts), H, [sname, ts], wraps=FAULT_WRAPS, weight=5))
        if which == "C15":
            jobs.append(Job("ctor-%s" % sname.replace(":", "_"), H, [sname, 0, "ctor"], wraps=FAULT_WRAPS, weight=1))
    if which == "C15":
        jobs.append(Job("ctor-qlog", H, ["qlog", 0, "ctor"], wraps=FAULT_WRAPS, weight=1))
        # error paths are where variables are most often read before they are set: the plain builds once more unoptimised
        # and uninstrumented, stack dirtied before every case
        for sname in ("qtreetbl", "qhashtbl:2", "qlisttbl:1", "qlist", "qvector:2", "qqueue", "qgrow", "qhasharr"):
            jobs.append(Job("o0-fault-%s" % sname.replace(":", "_"), H, [sname, 0], wraps=FAULT_WRAPS, flavour="o0", weight=3))
    return jobs


@prop("C15", "fault_enumeration",
      "for every container (tree table, hash table with range 1 and 2, list table plain/UNIQUE/INSERTTOP, list, queue, stack, "
      "grow buffer, vector under the three growth policies, static hash table handle) in its plain and its thread-safe build: "
      "every state of a small corpus x every public operation with argument classes reaching each outcome x fault plan "
      "{fail exactly the k-th allocation inside the call, fail every allocation from the k-th on} for k = 1..N (N counted by a "
      "dry run), plus every constructor. Oracle (differential against fault-free runs of the same code): same return value "
      "and same container as the fault-free run (for save: also the same file text), or the failure value and the container exactly as before; a fixed suffix of "
      "operations behaves as on the fault-free reference; ledger back to its start value after free(); no crash, no "
      "sanitizer report. non-trivial = the planned allocation failure was actually hit",
      ["functional correctness of the fault-free run is the subject of C01-C10", "double faults other than 'all from k' are not enumerated"],
      [need("evaluations", 10000), need("fault_hit", 5000), need("reported_failure", 1000), forbid("fault_not_hit")],
      classes=["fault:*", "asan:*"])
def c15(tier, seed):
    return fault_jobs(tier, "C15")


@prop("C14", "fault_enumeration",
      "for every lockable container created with its thread-safe option (and the qlog object): every public function of its "
      "method table x argument classes that reach each outcome (success, NULL/invalid argument, missing key, every index in "
      "[-n-2, n+2], empty container, full container) x every state of the corpus x entry lock depth {0, 1 = caller holds "
      "lock()} x allocation fault plan {none, k-th, all from k}. Oracle: a link-time wrapper of pthread_mutex_trylock/unlock "
      "tracks the depth of the container's mutex: on return it equals the entry depth; at entry depth 0 a second thread then "
      "tries the mutex and must get it. The harness's function table is cross-checked against the extern prototypes of the "
      "public headers. non-trivial = the planned allocation failure was hit (or the fault-free case of a distinct function)",
      ["lock depth is observed at pthread level, independently of the library's own counter",
       "E2 part: every 2-thread 1-operation program per container with <= 2 preemptions and <= 1 (thorough 2) time-outs of the wait for "
       "the lock - the waiting thread's trylock calls get the real EBUSY answers until the library's stall breaker (5000 attempts, "
       "forced Q_MUTEX_LEAVE) has run; afterwards every thread must still complete and the lock must be free"],
      [need("evaluations", 10000), need("lock_depth_checks", 10000), need("probe_thread_checks", 5000), need("lock_wait_timeouts_explored", 1000), functions_covered],
      classes=["lock:*", "conc:deadlock:*", "conc:livelock:*", "conc:lock-left-held:*", "conc:forced-unlock*"])
def c14(tier, seed):
    return fault_jobs(tier, "C14") + c13_jobs(tier, "timeout")


SCHED_WRAPS = ["pthread_mutex_trylock", "pthread_mutex_unlock", "usleep"]
C13_CONTAINERS = ["qvector", "qlist", "qqueue", "qstack", "qqueue-int", "qstack-int", "qtreetbl", "qhashtbl", "qlisttbl", "qlisttbl-unique"]


def c13_jobs(tier, which="all"):
    H = ["sched/c13.c", "sched/sched.c"]
    X = tier == "thorough"
    jobs = []
    def add(cont, shape, pb, flavour, shards, w, to=0):
        for i in range(shards):
            jobs.append(Job("%s-%s-s%d-pb%d%s-%d" % (flavour, cont, shape, pb, "-to%d" % to if to else "", i), H, [cont, shape, pb, i, shards] + ([to] if to else []), flavour=flavour,
                            wraps=SCHED_WRAPS, nosan=["sched/sched.c"], weight=w, env={"VC_PIN": "1"}))
    for cont in C13_CONTAINERS:
        # the wait for the lock times out (bounded deviation instead of real time): the library's stall breaker really runs
        add(cont, 11, 2, "asan", 1, 4, to=2 if X else 1)
        if X:
            add(cont, 21, 2, "asan", 4, 20, to=1)
        if which == "timeout":
            continue
        add(cont, 11, 3 if X else 2, "asan", 1, 1)
        add(cont, 21, 3 if X else 2, "asan", 4 if X else 2, 6)
        add(cont, 11, 2, "tsan", 1, 2)
        add(cont, 21, 2, "tsan", 3, 10)
        add(cont, 111, 2, "asan", 4 if X else 2, 20)
        if X:
            add(cont, 22, 2, "asan", 8, 40)
            add(cont, 111, 2, "tsan", 4, 30)
    return jobs


@prop("C13", "model_checking",
      "for each thread-safe container (vector, list, queue, stack, tree table, hash table with one shared chain, list table "
      "plain and UNIQUE): every 2-thread client program with <= 2 operations in one thread and 1 in the other and every 3-thread program with 1 operation each, over an "
      "alphabet of 6-12 operations on shared keys/positions (insert/put new and existing, copying get, remove/pop, clear, "
      "toarray/tostring, lock;walk;unlock; for the tree also puts on a second thread-safe table that only one thread uses) from 2 initial states (thorough: <= 2 operations per thread and all 3-thread "
      "1-operation programs); for every program every schedule with <= 2 preemptions (thorough 3 for 1-op programs) at the "
      "granularity of the library's lock operations, real pthreads serialised by a futex hand-off scheduler. Every execution: "
      "brute-force linearizability against sequential runs of the same code (results of every call + final contents, "
      "real-time order respected), deadlock/livelock, lock left held; the same programs and schedules on a TSan build whose "
      "scheduler is invisible to the sanitizer: any data race report is a violation",
      ["unlocked code between two scheduling points runs atomically in the search; unlocked accesses are caught by the TSan pass instead",
       "the 5000-spin stall breaker of Q_MUTEX_ENTER is explored as a bounded deviation (<= 1, thorough 2, time-outs per execution of the 1-operation programs, asan flavour), not in real time; "
       "the library's own depth counter, which the stall breaker decrements from a thread that does not hold the lock, is bookkeeping and is not judged (no tsan pass with time-outs)"],
      [need("programs", 1000), need("transitions", 10000), need("programs_with_several_outcomes", 10), need("lock_wait_timeouts_explored", 1000), forbid("replay_divergence")],
      classes=["conc:*", "asan:*"])
def c13(tier, seed):
    return c13_jobs(tier)

NOT_YET = {}
ENGINES = [
    {"name": "seqmc", "path": "engines/seqmc", "serves_properties": ["C01", "C02", "C03", "C04", "C05", "C08", "C09", "C10", "C11", "C12"],
     "kind_free_text": "explicit-state BFS over API histories of one container (state = history replayed on a fresh object, canonical key = observable structure), reference model + structural checker + sanitizer + ownership/ledger oracles on every transition"},
    {"name": "imagemc", "path": "engines/imagemc", "serves_properties": ["C06", "C07", "C11", "C12"],
     "kind_free_text": "explicit-state BFS over qhasharr memory images restored by memcpy at a different address before every transition"},
    {"name": "faultenum", "path": "engines/faultenum", "serves_properties": ["C14", "C15"],
     "kind_free_text": "exhaustive enumeration of (state, operation, entry lock depth, allocation-fault plan) with a differential oracle against fault-free runs and pthread-level lock-depth tracking"},
    {"name": "sched", "path": "engines/sched", "serves_properties": ["C13", "C14", "C16", "C17", "C18", "C19", "C20"],
     "kind_free_text": "stateless DFS over thread schedules with a preemption bound; real pthreads serialised by a raw-futex hand-off scheduler injected at the library's lock operations via --wrap; brute-force linearizability checker; TSan pass under the same scheduler"},
    {"name": "inputmc", "path": "engines/inputmc", "serves_properties": ["C16", "C17", "C18", "C19", "C20"],
     "kind_free_text": "bounded-exhaustive input enumeration against independent references, ASan/UBSan as oracle"},
]
