/* fault.c - E3: allocation-fault enumeration and lock-balance enumeration (C15, C14).
 *   fault <subject> <threadsafe 0|1>
 * For every state of a small corpus x every public operation (with argument classes that reach each outcome) x
 * entry lock depth {0,1} (thread-safe build) x fault plan {none, fail exactly the k-th allocation, fail all from the
 * k-th} for k = 1..N (N counted by a dry run):
 *   C15  the call returns what the fault-free run returns and the container equals the fault-free successor, or it
 *        returns its failure value and the container equals the state before the call; in both cases a fixed suffix
 *        of operations behaves exactly as on a fault-free reference container; free() brings the allocation ledger
 *        back; no crash, no sanitizer report
 *   C14  the container's mutex is at its entry depth when the call returns, and a second thread can take it
 * The oracle is differential against fault-free executions of the same real code (whose functional correctness is
 * the subject of C01-C10); no hand-written model is involved.
 */
#include "vc.h"
#include "vc_alloc.h"
#include <pthread.h>
#include <semaphore.h>
#include <fcntl.h>
#include "qlibc.h"
#include "qlibcext.h"
#include "qinternal.h"

/* ---------------- lock tracking (link-time wrap) ---------------- */
int __real_pthread_mutex_trylock(pthread_mutex_t *); int __real_pthread_mutex_unlock(pthread_mutex_t *); int __real_usleep(useconds_t);
static pthread_mutex_t *lk_mutex; static int lk_depth; static long lk_spins;
int __wrap_pthread_mutex_trylock(pthread_mutex_t *m) { int r = __real_pthread_mutex_trylock(m); if (r == 0 && m == lk_mutex) lk_depth++; return r; }
int __wrap_pthread_mutex_unlock(pthread_mutex_t *m) { int r = __real_pthread_mutex_unlock(m); if (r == 0 && m == lk_mutex) lk_depth--; return r; }
int __wrap_usleep(useconds_t u) { (void)u; if (++lk_spins > 20000) vc_abort_case("lock:self-deadlock"); return 0; }
/* probe thread: can somebody else take the mutex right now? */
static sem_t pr_req, pr_ack; static pthread_mutex_t *pr_m; static int pr_busy;
static void *probe_main(void *a) { (void)a; for (;;) { sem_wait(&pr_req); int r = __real_pthread_mutex_trylock(pr_m); if (r == 0) __real_pthread_mutex_unlock(pr_m); pr_busy = r != 0; sem_post(&pr_ack); } return NULL; }
static int probe_blocked(pthread_mutex_t *m) { pr_m = m; sem_post(&pr_req); sem_wait(&pr_ack); return pr_busy; }

/* ---------------- results ---------------- */
typedef struct { int failed; char s[200]; } res_t;
static void rb(res_t *r, int ok) { r->failed = !ok; strcpy(r->s, ok ? "true" : "false"); }
static void rn(res_t *r, long v, int failed) { r->failed = failed; sprintf(r->s, "%ld", v); }
static void rp(res_t *r, void *p, size_t n, int own) {   /* pointer result with n bytes; own = free it */
    r->failed = p == NULL;
    if (!p) strcpy(r->s, "NULL"); else { char *o = r->s; o += sprintf(o, "%zu:", n); vc_hex(o, p, n < 24 ? n : 24); if (own) free(p); }
}
static void rfmt_(res_t *r, const char *fmt, ...) { va_list ap; va_start(ap, fmt); vsnprintf(r->s, sizeof r->s, fmt, ap); va_end(ap); }
static void radd(res_t *r, const char *fmt, ...) { size_t l = strlen(r->s); va_list ap; va_start(ap, fmt); vsnprintf(r->s + l, sizeof r->s - l, fmt, ap); va_end(ap); }

typedef void (*opfn_t)(void *c, int a, int b, res_t *r);
typedef struct { const char *label, *fn; opfn_t f; int a, b; } fop_t;
typedef struct {
    const char *name; int nstates;
    void *(*make)(int st, int ts); void (*digest)(void *c, char *out); void (*destroy)(void *c); void *(*mutex)(void *c);
    void (*lock)(void *c); void (*unlock)(void *c);
    void (*suffix)(void *c, char *out);
    fop_t *ops; int nops;
} subject_t;
static FILE *devnull;
static const char *KS[5] = {"a", "b", "c", "d", "zz"};

/* =============================================================== qtreetbl */
static char T_STATES[400][12]; static int T_NSTATES;
static void t_perm(char *cur, int n, int used) {
    strcpy(T_STATES[T_NSTATES++], cur);
    if (n == 4) { for (int k = 0; k < 4; k++) { sprintf(T_STATES[T_NSTATES++], "%s%c", cur, 'A' + k); } return; }
    for (int k = 0; k < 4; k++) if (!(used & (1 << k))) { cur[n] = 'a' + k; cur[n + 1] = 0; t_perm(cur, n + 1, used | (1 << k)); cur[n] = 0; }
}
static void t_genstates(int full) { char cur[12] = ""; T_NSTATES = 0; if (full) t_perm(cur, 0, 0); else { const char *few[] = {"", "b", "ba", "bac", "abc", "cba", "bacd", "abcd", "dcba", "badc", "bacdB", "abcdA", "bacdD"}; for (int i = 0; i < 13; i++) strcpy(T_STATES[T_NSTATES++], few[i]); } }
static void *t_make(int st, int ts) { qtreetbl_t *t = qtreetbl(ts ? QTREETBL_THREADSAFE : 0); if (!t) return NULL; for (const char *p = T_STATES[st]; *p; p++) { char k[2] = {(char)(*p | 0x20), 0}; if (*p >= 'a') t->putstr(t, k, "v"); else t->remove(t, k); } return t; }
static char *t_rec(qtreetbl_obj_t *o, char *p, int d) { if (!o || d > 12) { *p++ = '.'; return p; } *p++ = '('; p = t_rec(o->left, p, d + 1); p += sprintf(p, "%s%c%zu:%.4s", (char *)o->name, o->red ? 'r' : 'b', o->datasize, o->data ? (char *)o->data : "-"); p = t_rec(o->right, p, d + 1); *p++ = ')'; return p; }
static void t_digest(void *c, char *out) { qtreetbl_t *t = c; char *p = out; p += sprintf(p, "n=%zu chk=%d ", t->size(t), qtreetbl_check(t)); p = t_rec(t->root, p, 0); *p = 0; }
static void t_destroy(void *c) { ((qtreetbl_t *)c)->free(c); }
static void *t_mutex(void *c) { return ((qtreetbl_t *)c)->qmutex; }
static void t_lock(void *c) { ((qtreetbl_t *)c)->lock(c); } static void t_unlock(void *c) { ((qtreetbl_t *)c)->unlock(c); }
static void t_walk(qtreetbl_t *t, int nm, res_t *r) {
    qtreetbl_obj_t o; memset(&o, 0, sizeof o); r->s[0] = 0; r->failed = 0; int n = 0;
    /* a getnext that fails with ENOMEM leaves the cursor on its element: the caller may call again (after a single failure that succeeds and the walk must be complete) */
    int retries = 0;
    for (;;) { errno = 0; if (!t->getnext(t, &o, nm)) { if (errno == ENOMEM) { if (++retries <= 2) continue; r->failed = 1; } break; } n++; radd(r, "%s=%.*s,", o.name ? (char *)o.name : "NULL", (int)o.datasize, o.data ? (char *)o.data : "NULL"); if (nm) { free(o.name); free(o.data); } if (n > 40) break; }
}
static void t_put(void *c, int a, int b, res_t *r) { qtreetbl_t *t = c; switch (b) { case 0: rb(r, t->put(t, KS[a], "w2", 3)); break; case 1: rb(r, t->putstr(t, KS[a], "w2")); break; case 2: rb(r, t->putstrf(t, KS[a], "w%d", 2)); break; case 3: rb(r, t->putobj(t, KS[a], strlen(KS[a]) + 1, "w2", 3)); break; case 4: rb(r, t->putobj(t, KS[a], strlen(KS[a]) + 1, NULL, 0)); break; } }
static void t_putnull(void *c, int a, int b, res_t *r) { qtreetbl_t *t = c; (void)a; if (b == 0) rb(r, t->put(t, NULL, "x", 2)); else rb(r, t->putobj(t, "x", 0, "x", 2)); }
static void t_get(void *c, int a, int b, res_t *r) { qtreetbl_t *t = c; size_t sz = 0; int nm = b & 1; void *d = (b & 2) ? t->getobj(t, KS[a], strlen(KS[a]) + 1, &sz, nm) : t->get(t, KS[a], &sz, nm); rp(r, d, sz, nm); }
static void t_getstr(void *c, int a, int b, res_t *r) { qtreetbl_t *t = c; char *d = t->getstr(t, KS[a], b); rp(r, d, d ? strlen(d) + 1 : 0, b); }
static void t_getnull(void *c, int a, int b, res_t *r) { qtreetbl_t *t = c; (void)a; (void)b; rp(r, t->get(t, NULL, NULL, true), 0, 1); }
static void t_remove(void *c, int a, int b, res_t *r) { qtreetbl_t *t = c; rb(r, b ? t->removeobj(t, KS[a], strlen(KS[a]) + 1) : t->remove(t, KS[a])); }
static void t_removenull(void *c, int a, int b, res_t *r) { qtreetbl_t *t = c; (void)a; (void)b; rb(r, t->remove(t, NULL)); }
static void t_walkop(void *c, int a, int b, res_t *r) { if (a == 9) { rb(r, ((qtreetbl_t *)c)->getnext(c, NULL, b)); r->failed = 0; return; } t_walk(c, b, r); }
static void t_minmax(void *c, int a, int b, res_t *r) { qtreetbl_t *t = c; (void)b; size_t ns = 0; errno = 0; void *p = a ? t->find_max(t, &ns) : t->find_min(t, &ns); int e = errno; rp(r, p, p ? ns : 0, 1); if (!p && e == ENOENT) r->failed = 0; }
/* a caller recognises failure by the documented empty object (name NULL) and then owns nothing: it frees the copies only of a non-empty result, and a non-empty result with newmem must carry both copies */
static void t_nearest(void *c, int a, int b, res_t *r) { qtreetbl_t *t = c; errno = 0; qtreetbl_obj_t o = t->find_nearest(t, KS[a], strlen(KS[a]) + 1, b); int e = errno; r->failed = (o.name == NULL && e != ENOENT); sprintf(r->s, "%s=%.*s", o.name ? (char *)o.name : "NULL", (int)(o.data ? o.datasize : 4), o.data ? (char *)o.data : "NULL"); if (b && o.name) { free(o.name); free(o.data); } }
static void t_nearestnull(void *c, int a, int b, res_t *r) { qtreetbl_t *t = c; (void)a; (void)b; qtreetbl_obj_t o = t->find_nearest(t, NULL, 0, true); rb(r, o.name != NULL); }
static void t_size(void *c, int a, int b, res_t *r) { (void)a; (void)b; rn(r, ((qtreetbl_t *)c)->size(c), 0); }
static void t_clear(void *c, int a, int b, res_t *r) { (void)a; (void)b; ((qtreetbl_t *)c)->clear(c); rb(r, 1); }
static void t_debug(void *c, int a, int b, res_t *r) { (void)b; rb(r, ((qtreetbl_t *)c)->debug(c, a ? devnull : NULL)); if (!a) r->failed = 0; }
static void t_lockunlock(void *c, int a, int b, res_t *r) { (void)a; (void)b; qtreetbl_t *t = c; t->lock(t); t->unlock(t); rb(r, 1); }
static void t_setcmp(void *c, int a, int b, res_t *r) { (void)a; (void)b; ((qtreetbl_t *)c)->set_compare(c, qtreetbl_byte_cmp); rb(r, 1); }
static void t_suffix(void *c, char *out) { qtreetbl_t *t = c; res_t r; char *p = out; p += sprintf(p, "%d", t->putstr(t, "n", "nv")); p += sprintf(p, "%d", t->putstr(t, "a", "a2")); for (int i = 0; i < 5; i++) { char *s = t->getstr(t, KS[i], true); p += sprintf(p, "%s,", s ? s : "-"); free(s); } p += sprintf(p, "%d", t->remove(t, "b")); t_walk(t, 1, &r); p += sprintf(p, "[%s]", r.s); t_digest(t, p); }
static fop_t T_OPS[96]; static int T_NOPS;
static void t_build(void) {
    int n = 0;
#define ADD(tab, lab, fnname, fun, A, B) tab[n++] = (fop_t){lab, fnname, fun, A, B}
    for (int k = 0; k < 5; k += 2) { ADD(T_OPS, "put", "qtreetbl_put", t_put, k, 0); ADD(T_OPS, "putstr", "qtreetbl_putstr", t_put, k, 1); ADD(T_OPS, "putstrf", "qtreetbl_putstrf", t_put, k, 2); ADD(T_OPS, "putobj", "qtreetbl_putobj", t_put, k, 3); }
    ADD(T_OPS, "putobj(empty value)", "qtreetbl_putobj", t_put, 0, 4); ADD(T_OPS, "put(NULL name)", "qtreetbl_put", t_putnull, 0, 0); ADD(T_OPS, "putobj(namesize 0)", "qtreetbl_putobj", t_putnull, 0, 1);
    for (int k = 0; k < 5; k += 2) for (int b = 0; b < 4; b++) ADD(T_OPS, b & 2 ? (b & 1 ? "getobj(newmem)" : "getobj") : (b & 1 ? "get(newmem)" : "get"), b & 2 ? "qtreetbl_getobj" : "qtreetbl_get", t_get, k, b);
    ADD(T_OPS, "getstr", "qtreetbl_getstr", t_getstr, 0, 0); ADD(T_OPS, "getstr(newmem)", "qtreetbl_getstr", t_getstr, 1, 1); ADD(T_OPS, "get(NULL name)", "qtreetbl_get", t_getnull, 0, 0);
    for (int k = 0; k < 5; k++) { ADD(T_OPS, "remove", "qtreetbl_remove", t_remove, k, 0); } ADD(T_OPS, "removeobj", "qtreetbl_removeobj", t_remove, 1, 1); ADD(T_OPS, "remove(NULL)", "qtreetbl_remove", t_removenull, 0, 0);
    ADD(T_OPS, "getnext walk", "qtreetbl_getnext", t_walkop, 0, 0); ADD(T_OPS, "getnext walk(newmem)", "qtreetbl_getnext", t_walkop, 0, 1); ADD(T_OPS, "getnext(NULL cursor)", "qtreetbl_getnext", t_walkop, 9, 0);
    ADD(T_OPS, "find_min", "qtreetbl_find_min", t_minmax, 0, 0); ADD(T_OPS, "find_max", "qtreetbl_find_max", t_minmax, 1, 0);
    for (int k = 0; k < 5; k += 2) for (int b = 0; b < 2; b++) ADD(T_OPS, b ? "find_nearest(newmem)" : "find_nearest", "qtreetbl_find_nearest", t_nearest, k, b);
    ADD(T_OPS, "find_nearest(NULL)", "qtreetbl_find_nearest", t_nearestnull, 0, 0);
    ADD(T_OPS, "size", "qtreetbl_size", t_size, 0, 0); ADD(T_OPS, "clear", "qtreetbl_clear", t_clear, 0, 0); ADD(T_OPS, "debug(NULL)", "qtreetbl_debug", t_debug, 0, 0); ADD(T_OPS, "debug", "qtreetbl_debug", t_debug, 1, 0);
    ADD(T_OPS, "lock+unlock", "qtreetbl_lock qtreetbl_unlock", t_lockunlock, 0, 0); ADD(T_OPS, "set_compare", "qtreetbl_set_compare", t_setcmp, 0, 0);
    T_NOPS = n;
}

/* =============================================================== qhashtbl */
static int H_RANGE = 2;
static const char *H_STATES[] = {"", "a", "b", "ab", "ba", "abc", "acb", "bac", "bca", "cab", "cba", "abcd", "dcba", "abcdB", "abcdA", "abcdD", "dcbaC"};
static void *h_make(int st, int ts) { qhashtbl_t *t = qhashtbl(H_RANGE, ts ? QHASHTBL_THREADSAFE : 0); if (!t) return NULL; for (const char *p = H_STATES[st]; *p; p++) { char k[2] = {(char)(*p | 0x20), 0}; if (*p >= 'a') t->putstr(t, k, "v"); else t->remove(t, k); } return t; }
static void h_digest(void *c, char *out) { qhashtbl_t *t = c; char *p = out; p += sprintf(p, "n=%zu ", t->size(t)); for (size_t s = 0; s < t->range; s++) { p += sprintf(p, "["); int g = 0; for (qhashtbl_obj_t *o = t->slots[s]; o && g < 10; o = o->next, g++) p += sprintf(p, "%s=%zu:%.4s ", o->name, o->size, (char *)o->data); p += sprintf(p, "]"); } }
static void h_destroy(void *c) { ((qhashtbl_t *)c)->free(c); }
static void *h_mutex(void *c) { return ((qhashtbl_t *)c)->qmutex; }
static void h_lock(void *c) { ((qhashtbl_t *)c)->lock(c); } static void h_unlock(void *c) { ((qhashtbl_t *)c)->unlock(c); }
static void h_walk(qhashtbl_t *t, int nm, res_t *r) { qhashtbl_obj_t o; memset(&o, 0, sizeof o); r->s[0] = 0; r->failed = 0; int n = 0; for (;;) { errno = 0; if (!t->getnext(t, &o, nm)) { if (errno == ENOMEM) r->failed = 1; break; } n++; radd(r, "%s=%.*s,", o.name, (int)o.size, (char *)o.data); if (nm) { free(o.name); free(o.data); } if (n > 40) break; } }
static void h_put(void *c, int a, int b, res_t *r) { qhashtbl_t *t = c; switch (b) { case 0: rb(r, t->put(t, KS[a], "w2", 3)); break; case 1: rb(r, t->putstr(t, KS[a], "w2")); break; case 2: rb(r, t->putstrf(t, KS[a], "w%d", 2)); break; case 3: rb(r, t->putint(t, KS[a], 12345)); break; case 4: rb(r, t->put(t, NULL, "x", 2)); break; case 5: rb(r, t->putstr(t, KS[a], NULL)); break; } }
static void h_get(void *c, int a, int b, res_t *r) { qhashtbl_t *t = c; size_t sz = 0; if (b < 2) { void *d = t->get(t, KS[a], &sz, b); rp(r, d, d ? sz : 0, b); } else if (b == 2) { char *d = t->getstr(t, KS[a], true); rp(r, d, d ? strlen(d) + 1 : 0, 1); } else if (b == 3) { rn(r, t->getint(t, KS[a]), 0); } else rp(r, t->get(t, NULL, NULL, true), 0, 1); }
static void h_remove(void *c, int a, int b, res_t *r) { qhashtbl_t *t = c; rb(r, b ? t->remove(t, NULL) : t->remove(t, KS[a])); }
static void h_walkop(void *c, int a, int b, res_t *r) { if (a == 9) { rb(r, ((qhashtbl_t *)c)->getnext(c, NULL, b)); r->failed = 0; return; } h_walk(c, b, r); }
static void h_misc(void *c, int a, int b, res_t *r) { qhashtbl_t *t = c; (void)b; switch (a) { case 0: rn(r, t->size(t), 0); break; case 1: t->clear(t); rb(r, 1); break; case 2: rb(r, t->debug(t, NULL)); r->failed = 0; break; case 3: rb(r, t->debug(t, devnull)); break; case 4: t->lock(t); t->unlock(t); rb(r, 1); break; } }
static void h_suffix(void *c, char *out) { qhashtbl_t *t = c; res_t r; char *p = out; p += sprintf(p, "%d%d", t->putstr(t, "n", "nv"), t->putstr(t, "a", "a2")); for (int i = 0; i < 5; i++) { char *s = t->getstr(t, KS[i], true); p += sprintf(p, "%s,", s ? s : "-"); free(s); } p += sprintf(p, "%d", t->remove(t, "b")); h_walk(t, 1, &r); p += sprintf(p, "[%s]", r.s); h_digest(t, p); }
static fop_t H_OPS[64]; static int H_NOPS;
static void h_build(void) {
    int n = 0;
    for (int k = 0; k < 5; k += 2) { ADD(H_OPS, "put", "qhashtbl_put", h_put, k, 0); ADD(H_OPS, "putstr", "qhashtbl_putstr", h_put, k, 1); ADD(H_OPS, "putstrf", "qhashtbl_putstrf", h_put, k, 2); ADD(H_OPS, "putint", "qhashtbl_putint", h_put, k, 3); }
    ADD(H_OPS, "put(NULL name)", "qhashtbl_put", h_put, 0, 4); ADD(H_OPS, "putstr(NULL value)", "qhashtbl_putstr", h_put, 0, 5);
    for (int k = 0; k < 5; k += 2) { ADD(H_OPS, "get", "qhashtbl_get", h_get, k, 0); ADD(H_OPS, "get(newmem)", "qhashtbl_get", h_get, k, 1); ADD(H_OPS, "getstr(newmem)", "qhashtbl_getstr", h_get, k, 2); ADD(H_OPS, "getint", "qhashtbl_getint", h_get, k, 3); }
    ADD(H_OPS, "get(NULL name)", "qhashtbl_get", h_get, 0, 4);
    for (int k = 0; k < 5; k++) ADD(H_OPS, "remove", "qhashtbl_remove", h_remove, k, 0); ADD(H_OPS, "remove(NULL)", "qhashtbl_remove", h_remove, 0, 1);
    ADD(H_OPS, "getnext walk", "qhashtbl_getnext", h_walkop, 0, 0); ADD(H_OPS, "getnext walk(newmem)", "qhashtbl_getnext", h_walkop, 0, 1); ADD(H_OPS, "getnext(NULL cursor)", "qhashtbl_getnext", h_walkop, 9, 0);
    ADD(H_OPS, "size", "qhashtbl_size", h_misc, 0, 0); ADD(H_OPS, "clear", "qhashtbl_clear", h_misc, 1, 0); ADD(H_OPS, "debug(NULL)", "qhashtbl_debug", h_misc, 2, 0); ADD(H_OPS, "debug", "qhashtbl_debug", h_misc, 3, 0); ADD(H_OPS, "lock+unlock", "qhashtbl_lock qhashtbl_unlock", h_misc, 4, 0);
    H_NOPS = n;
}

/* =============================================================== qlisttbl */
static int LT_OPT;
static char lt_path[600], lt_loadpath[600];
static void *lt_make(int st, int ts) { qlisttbl_t *t = qlisttbl(LT_OPT | (ts ? QLISTTBL_THREADSAFE : 0)); if (!t) return NULL;
    /* state index = sequence of <= 3 puts over {a,b,c}: 0 empty, 1..3 length 1, 4..12 length 2, 13..39 length 3 */
    if (st >= 40) { int n = st == 40 ? 12 : 21; for (int i = 0; i < n; i++) t->putstr(t, KS[0], i & 1 ? "v2" : "v"); t->putstr(t, KS[2], "v"); return t; }   /* 12 / 21 entries of one name: beyond the 10 / 20 element steps of getmulti's result array */
    int len = st == 0 ? 0 : st < 4 ? 1 : st < 13 ? 2 : 3, code = st == 0 ? 0 : st < 4 ? st - 1 : st < 13 ? st - 4 : st - 13;
    for (int i = 0; i < len; i++) { t->putstr(t, KS[code % 3], i == 1 ? "v2" : "v"); code /= 3; } return t; }
static void lt_digest(void *c, char *out) { qlisttbl_t *t = c; char *p = out; p += sprintf(p, "n=%zu ", t->size(t)); int g = 0; qlisttbl_obj_t *last = NULL; for (qlisttbl_obj_t *o = t->first; o && g < 12; o = o->next, g++) { p += sprintf(p, "%s=%zu:%.4s%s ", o->name, o->size, (char *)o->data, o->prev == last ? "" : "!prev"); last = o; } p += sprintf(p, "%s", t->last == last ? "" : "!last"); }
static void lt_destroy(void *c) { ((qlisttbl_t *)c)->free(c); }
static void *lt_mutex(void *c) { return ((qlisttbl_t *)c)->qmutex; }
static void lt_lock(void *c) { ((qlisttbl_t *)c)->lock(c); } static void lt_unlock(void *c) { ((qlisttbl_t *)c)->unlock(c); }
static void lt_walk(qlisttbl_t *t, const char *name, int nm, res_t *r) { qlisttbl_obj_t o; memset(&o, 0, sizeof o); r->s[0] = 0; r->failed = 0; int n = 0; for (;;) { errno = 0; if (!t->getnext(t, &o, name, nm)) { if (errno == ENOMEM) r->failed = 1; break; } n++; radd(r, "%s=%.*s,", o.name, (int)o.size, (char *)o.data); if (nm) { free(o.name); free(o.data); } if (n > 40) break; } }
static void lt_put(void *c, int a, int b, res_t *r) { qlisttbl_t *t = c; switch (b) { case 0: rb(r, t->put(t, KS[a], "w2", 3)); break; case 1: rb(r, t->putstr(t, KS[a], "w2")); break; case 2: rb(r, t->putstrf(t, KS[a], "w%d", 2)); break; case 3: rb(r, t->putint(t, KS[a], 12345)); break; case 4: rb(r, t->put(t, NULL, "x", 2)); break; case 5: rb(r, t->put(t, KS[a], NULL, 0)); break; } }
static void lt_get(void *c, int a, int b, res_t *r) { qlisttbl_t *t = c; size_t sz = 0; if (b < 2) { void *d = t->get(t, KS[a], &sz, b); rp(r, d, d ? sz : 0, b); } else if (b == 2) { char *d = t->getstr(t, KS[a], true); rp(r, d, d ? strlen(d) + 1 : 0, 1); } else if (b == 3) rn(r, t->getint(t, KS[a]), 0); else rp(r, t->get(t, NULL, NULL, true), 0, 1); }
static void lt_getmulti(void *c, int a, int b, res_t *r) { qlisttbl_t *t = c; size_t n = 99; errno = 0; qlisttbl_data_t *d = t->getmulti(t, KS[a], b, &n); int e = errno; r->failed = (d == NULL && e == ENOMEM); sprintf(r->s, "%s n=%zu ", d ? "arr" : "NULL", n); if (d) { for (size_t i = 0; i < n && i < 8; i++) radd(r, "%.*s,", (int)d[i].size, (char *)d[i].data); t->freemulti(d); } }
static void lt_remove(void *c, int a, int b, res_t *r) { qlisttbl_t *t = c; if (b == 0) rn(r, t->remove(t, KS[a]), 0); else if (b == 1) rn(r, t->remove(t, NULL), 0); else if (b == 2) rb(r, t->removeobj(t, NULL));
    else if (b == 4) { r->failed = 0; if (t->size(t) != 0) { strcpy(r->s, "n/a"); return; } qlisttbl_obj_t o; memset(&o, 0, sizeof o); int r1 = t->removeobj(t, &o); rfmt_(r, "zeroed-cursor:%d", r1); }   /* only on an empty table: elsewhere a zeroed cursor is not a valid argument */
    else if (b == 5) { qlisttbl_obj_t o; memset(&o, 0, sizeof o); int n = 0; while (t->getnext(t, &o, NULL, false)) n++; int r1 = n ? t->removeobj(t, &o) : -1, r2 = n ? t->removeobj(t, &o) : -1; rfmt_(r, "stale-cursor:%d,%d", r1, r2); r->failed = 0; }
    else if (b == 6) { rb(r, t->getnext(t, NULL, NULL, false)); r->failed = 0; }
    else { qlisttbl_obj_t o; memset(&o, 0, sizeof o); if (t->getnext(t, &o, KS[a], false)) rb(r, t->removeobj(t, &o)); else { rb(r, 0); r->failed = 0; } } }
static void lt_walkop(void *c, int a, int b, res_t *r) { lt_walk(c, a < 5 ? KS[a] : NULL, b, r); }
static void lt_misc(void *c, int a, int b, res_t *r) { qlisttbl_t *t = c; (void)b; switch (a) { case 0: rn(r, t->size(t), 0); break; case 1: t->sort(t); rb(r, 1); break; case 2: t->clear(t); rb(r, 1); break; case 3: rb(r, t->debug(t, NULL)); r->failed = 0; break; case 4: rb(r, t->debug(t, devnull)); break; case 5: t->lock(t); t->unlock(t); rb(r, 1); break;
    case 6: rb(r, t->save(t, NULL, '=', true)); r->failed = 0; break; case 7: {   /* the result of a save is the file: its text after the '# path date' header line is part of the observation */
        unlink(lt_path); bool ok = t->save(t, lt_path, '=', true); rb(r, ok);
        if (ok) { static char fb[4096]; int fd = open(lt_path, O_RDONLY); ssize_t n = fd >= 0 ? read(fd, fb, sizeof fb - 1) : -1; if (fd >= 0) close(fd);
            if (n < 0) strcpy(r->s, "true, no file"); else { fb[n] = 0; char *body = fb[0] == '#' && strchr(fb, '\n') ? strchr(fb, '\n') + 1 : fb; for (char *q = body; *q; q++) if (*q == '\n') *q = '|'; snprintf(r->s, sizeof r->s, "true file[%.150s]", body); } }
        break; } case 8: rn(r, t->load(t, "/nonexistent/dir/file", '=', true), 0); break; case 9: { ssize_t n = t->load(t, lt_loadpath, '=', true); rn(r, n, n < 0); break; } } }
static void lt_suffix(void *c, char *out) { qlisttbl_t *t = c; res_t r; char *p = out; p += sprintf(p, "%d%d", t->putstr(t, "n", "nv"), t->putstr(t, "a", "a3")); for (int i = 0; i < 5; i++) { char *s = t->getstr(t, KS[i], true); p += sprintf(p, "%s,", s ? s : "-"); free(s); } p += sprintf(p, "%zu", t->remove(t, "b")); lt_walk(t, NULL, 1, &r); p += sprintf(p, "[%s]", r.s); lt_digest(t, p); }
static fop_t LT_OPS[96]; static int LT_NOPS;
static void lt_build(void) {
    int n = 0;
    for (int k = 0; k < 5; k += 2) { ADD(LT_OPS, "put", "qlisttbl_put", lt_put, k, 0); ADD(LT_OPS, "putstr", "qlisttbl_putstr", lt_put, k, 1); ADD(LT_OPS, "putstrf", "qlisttbl_putstrf", lt_put, k, 2); ADD(LT_OPS, "putint", "qlisttbl_putint", lt_put, k, 3); }
    ADD(LT_OPS, "put(NULL name)", "qlisttbl_put", lt_put, 0, 4); ADD(LT_OPS, "put(NULL data)", "qlisttbl_put", lt_put, 0, 5);
    for (int k = 0; k < 5; k += 2) { ADD(LT_OPS, "get", "qlisttbl_get", lt_get, k, 0); ADD(LT_OPS, "get(newmem)", "qlisttbl_get", lt_get, k, 1); ADD(LT_OPS, "getstr(newmem)", "qlisttbl_getstr", lt_get, k, 2); ADD(LT_OPS, "getint", "qlisttbl_getint", lt_get, k, 3); ADD(LT_OPS, "getmulti", "qlisttbl_getmulti qlisttbl_freemulti", lt_getmulti, k, 0); ADD(LT_OPS, "getmulti(newmem)", "qlisttbl_getmulti qlisttbl_freemulti", lt_getmulti, k, 1); }
    ADD(LT_OPS, "get(NULL name)", "qlisttbl_get", lt_get, 0, 4);
    for (int k = 0; k < 5; k++) ADD(LT_OPS, "remove", "qlisttbl_remove", lt_remove, k, 0); ADD(LT_OPS, "remove(NULL)", "qlisttbl_remove", lt_remove, 0, 1); ADD(LT_OPS, "removeobj(NULL)", "qlisttbl_removeobj", lt_remove, 0, 2); ADD(LT_OPS, "removeobj(found)", "qlisttbl_removeobj", lt_remove, 0, 3); ADD(LT_OPS, "removeobj(found)", "qlisttbl_removeobj", lt_remove, 2, 3);
    ADD(LT_OPS, "removeobj(zeroed cursor)", "qlisttbl_removeobj", lt_remove, 0, 4); ADD(LT_OPS, "removeobj(same cursor twice)", "qlisttbl_removeobj", lt_remove, 0, 5); ADD(LT_OPS, "getnext(NULL cursor)", "qlisttbl_getnext", lt_remove, 0, 6);
    ADD(LT_OPS, "getnext walk", "qlisttbl_getnext", lt_walkop, 5, 0); ADD(LT_OPS, "getnext walk(newmem)", "qlisttbl_getnext", lt_walkop, 5, 1); ADD(LT_OPS, "getnext walk(name,newmem)", "qlisttbl_getnext", lt_walkop, 0, 1); ADD(LT_OPS, "getnext walk(absent name)", "qlisttbl_getnext", lt_walkop, 4, 1);
    const char *mn[] = {"size", "sort", "clear", "debug(NULL)", "debug", "lock+unlock", "save(NULL path)", "save", "load(missing file)", "load"};
    const char *mf[] = {"qlisttbl_size", "qlisttbl_sort", "qlisttbl_clear", "qlisttbl_debug", "qlisttbl_debug", "qlisttbl_lock qlisttbl_unlock", "qlisttbl_save", "qlisttbl_save", "qlisttbl_load", "qlisttbl_load"};
    for (int i = 0; i < 10; i++) ADD(LT_OPS, mn[i], mf[i], lt_misc, i, 0);
    LT_NOPS = n;
}

/* =============================================================== qlist (and queue / stack / grow on top of it) */
static int L_KIND;   /* 0 list 1 queue 2 stack 3 grow */
static qlist_t *L_OF(void *c) { return L_KIND == 0 ? (qlist_t *)c : L_KIND == 1 ? ((qqueue_t *)c)->list : L_KIND == 2 ? ((qstack_t *)c)->list : ((qgrow_t *)c)->list; }
static void *l_make(int st, int ts) {
    /* states 0..3: n elements; 4: two elements and size limit 2 (full); 5 (queue/stack): one int64 element */
    int n = st == 4 ? 2 : st == 5 ? 0 : st; void *c; int o = ts ? QLIST_THREADSAFE : 0;
    if (L_KIND == 0) { qlist_t *l = qlist(o); if (!l) return NULL; for (int i = 0; i < n; i++) l->addlast(l, i & 1 ? "cd" : "ab\0x", i & 1 ? 3 : 5); if (st == 4) l->setsize(l, 2); c = l; }
    else if (L_KIND == 1) { qqueue_t *q = qqueue(o); if (!q) return NULL; for (int i = 0; i < n; i++) q->pushstr(q, i & 1 ? "cd" : "ab"); if (st == 4) q->setsize(q, 2); if (st == 5) q->pushint(q, 4242); c = q; }
    else if (L_KIND == 2) { qstack_t *s = qstack(o); if (!s) return NULL; for (int i = 0; i < n; i++) s->pushstr(s, i & 1 ? "cd" : "ab"); if (st == 4) s->setsize(s, 2); if (st == 5) s->pushint(s, 4242); c = s; }
    else { qgrow_t *g = qgrow(o); if (!g) return NULL; for (int i = 0; i < n; i++) g->addstr(g, i & 1 ? "cd" : "ab"); c = g; }
    return c;
}
static void l_digest(void *c, char *out) { qlist_t *l = L_OF(c); char *p = out; p += sprintf(p, "n=%zu ds=%zu max=%zu ", l->num, l->datasum, l->max); int g = 0; qlist_obj_t *last = NULL; for (qlist_obj_t *o = l->first; o && g < 12; o = o->next, g++) { p += sprintf(p, "%zu:%.*s%s ", o->size, (int)(o->size < 3 ? o->size : 3), (char *)o->data, o->prev == last ? "" : "!prev"); last = o; } p += sprintf(p, "%s", l->last == last ? "" : "!last"); }
static void l_destroy(void *c) { if (L_KIND == 0) ((qlist_t *)c)->free(c); else if (L_KIND == 1) ((qqueue_t *)c)->free(c); else if (L_KIND == 2) ((qstack_t *)c)->free(c); else ((qgrow_t *)c)->free(c); }
static void *l_mutex(void *c) { return L_OF(c)->qmutex; }
static void l_lock(void *c) { qlist_t *l = L_OF(c); l->lock(l); } static void l_unlock(void *c) { qlist_t *l = L_OF(c); l->unlock(l); }
static void l_walk(qlist_t *l, int nm, res_t *r) { qlist_obj_t o; memset(&o, 0, sizeof o); r->s[0] = 0; r->failed = 0; int n = 0; for (;;) { errno = 0; if (!l->getnext(l, &o, nm)) { if (errno != ENOENT) r->failed = 1; break; } n++; radd(r, "%zu:%.*s,", o.size, (int)(o.size < 3 ? o.size : 3), (char *)o.data); if (nm) free(o.data); if (n > 40) break; } }
static void l_add(void *c, int a, int b, res_t *r) { qlist_t *l = c; switch (b) { case 0: rb(r, l->addfirst(l, "zz", 3)); break; case 1: rb(r, l->addlast(l, "zz", 3)); break; case 2: rb(r, l->addat(l, a, "zz", 3)); break; case 3: rb(r, l->addlast(l, NULL, 1)); break; case 4: rb(r, l->addat(l, 0, "x", 0)); break; } }
static void l_get(void *c, int a, int b, res_t *r) { qlist_t *l = c; size_t sz = 0; void *d = b < 2 ? l->getat(l, a, &sz, b) : b == 2 ? l->getfirst(l, &sz, true) : l->getlast(l, &sz, true); rp(r, d, d ? sz : 0, b != 0); }
static void l_pop(void *c, int a, int b, res_t *r) { qlist_t *l = c; size_t sz = 0; void *d = b == 0 ? l->popat(l, a, &sz) : b == 1 ? l->popfirst(l, &sz) : l->poplast(l, &sz); rp(r, d, d ? sz : 0, 1); }
static void l_rem(void *c, int a, int b, res_t *r) { qlist_t *l = c; rb(r, b == 0 ? l->removeat(l, a) : b == 1 ? l->removefirst(l) : l->removelast(l)); }
static void l_walkop(void *c, int a, int b, res_t *r) { if (a == 9) { rb(r, ((qlist_t *)c)->getnext(c, NULL, b)); r->failed = 0; return; } l_walk(c, b, r); }
static void l_misc(void *c, int a, int b, res_t *r) { qlist_t *l = c; (void)b; size_t sz = 0; switch (a) { case 0: rn(r, l->size(l), 0); break; case 1: rn(r, l->datasize(l), 0); break; case 2: l->reverse(l); rb(r, 1); break; case 3: l->clear(l); rb(r, 1); break;
    case 4: { errno = 0; void *d = l->toarray(l, &sz); int e = errno; rp(r, d, d ? sz : 0, 1); if (!d && e == ENOENT) r->failed = 0; break; } case 5: { errno = 0; char *d = l->tostring(l); int e = errno; rp(r, d, d ? strlen(d) + 1 : 0, 1); if (!d && e == ENOENT) r->failed = 0; break; }
    case 6: rb(r, l->debug(l, NULL)); r->failed = 0; break; case 7: rb(r, l->debug(l, devnull)); break; case 8: rn(r, l->setsize(l, 1), 0); break; case 9: l->lock(l); l->unlock(l); rb(r, 1); break; } }
static void l_suffix(void *c, char *out) { qlist_t *l = L_OF(c); res_t r; char *p = out; l->setsize(l, 0); p += sprintf(p, "%d%d", l->addlast(l, "nn", 3), l->addat(l, 1, "mm", 3)); size_t sz; char *s = l->popfirst(l, &sz); p += sprintf(p, "%s,", s ? s : "-"); free(s); s = l->tostring(l); p += sprintf(p, "%s,", s ? s : "-"); free(s); l_walk(l, 1, &r); p += sprintf(p, "[%s]", r.s); l_digest(c, p); }
/* queue / stack */
#define QQ ((qqueue_t *)c)
#define SS ((qstack_t *)c)
static void qs_push(void *c, int a, int b, res_t *r) { (void)a; int q = L_KIND == 1; switch (b) { case 0: rb(r, q ? QQ->push(QQ, "zz", 3) : SS->push(SS, "zz", 3)); break; case 1: rb(r, q ? QQ->pushstr(QQ, "zz") : SS->pushstr(SS, "zz")); break; case 2: rb(r, q ? QQ->pushint(QQ, 77) : SS->pushint(SS, 77)); break; case 3: rb(r, q ? QQ->pushstr(QQ, NULL) : SS->pushstr(SS, NULL)); break; case 4: rb(r, q ? QQ->push(QQ, NULL, 1) : SS->push(SS, NULL, 1)); break; } }
static void qs_pop(void *c, int a, int b, res_t *r) { int q = L_KIND == 1; size_t sz = 0; void *d; switch (b) { case 0: d = q ? QQ->pop(QQ, &sz) : SS->pop(SS, &sz); rp(r, d, d ? sz : 0, 1); break; case 1: d = q ? QQ->popstr(QQ) : SS->popstr(SS); rp(r, d, d ? strlen(d) + 1 : 0, 1); break; case 2: d = q ? QQ->popat(QQ, a, &sz) : SS->popat(SS, a, &sz); rp(r, d, d ? sz : 0, 1); break; } }
static void qs_get(void *c, int a, int b, res_t *r) { int q = L_KIND == 1; size_t sz = 0; void *d; switch (b) { case 0: case 1: d = q ? QQ->get(QQ, &sz, b) : SS->get(SS, &sz, b); rp(r, d, d ? sz : 0, b); break; case 2: d = q ? QQ->getstr(QQ) : SS->getstr(SS); rp(r, d, d ? strlen(d) + 1 : 0, 1); break; case 3: case 4: d = q ? QQ->getat(QQ, a, &sz, b == 4) : SS->getat(SS, a, &sz, b == 4); rp(r, d, d ? sz : 0, b == 4); break; } }
static void qs_misc(void *c, int a, int b, res_t *r) { int q = L_KIND == 1; (void)b; switch (a) { case 0: rn(r, q ? QQ->size(QQ) : SS->size(SS), 0); break; case 1: if (q) QQ->clear(QQ); else SS->clear(SS); rb(r, 1); break; case 2: rb(r, q ? QQ->debug(QQ, NULL) : SS->debug(SS, NULL)); r->failed = 0; break; case 3: rb(r, q ? QQ->debug(QQ, devnull) : SS->debug(SS, devnull)); break; case 4: rn(r, q ? QQ->setsize(QQ, 1) : SS->setsize(SS, 1), 0); break; } }
/* popint/getint are only meaningful when the element at the front is an int64 (state 5) or the container is empty */
static void qs_int(void *c, int a, int b, res_t *r) { int q = L_KIND == 1; (void)a; qlist_t *l = L_OF(c); if (l->first && l->first->size != 8) { r->failed = 0; strcpy(r->s, "n/a"); return; } int had = l->first != NULL; long v = q ? (b ? QQ->popint(QQ) : QQ->getint(QQ)) : (b ? SS->popint(SS) : SS->getint(SS)); rn(r, v, had && v != 4242); }
#define GG ((qgrow_t *)c)
static void g_op(void *c, int a, int b, res_t *r) { (void)b; size_t sz = 0; switch (a) { case 0: rb(r, GG->add(GG, "zz", 3)); break; case 1: rb(r, GG->addstr(GG, "zz")); break; case 2: rb(r, GG->addstrf(GG, "z%d", 7)); break; case 3: rb(r, GG->add(GG, NULL, 1)); break; case 4: rn(r, GG->size(GG), 0); break; case 5: rn(r, GG->datasize(GG), 0); break;
    case 6: { errno = 0; void *d = GG->toarray(GG, &sz); int e = errno; rp(r, d, d ? sz : 0, 1); if (!d && e == ENOENT) r->failed = 0; break; } case 7: { errno = 0; char *d = GG->tostring(GG); int e = errno; rp(r, d, d ? strlen(d) + 1 : 0, 1); if (!d && e == ENOENT) r->failed = 0; break; }
    case 8: GG->clear(GG); rb(r, 1); break; case 9: rb(r, GG->debug(GG, NULL)); r->failed = 0; break; case 10: rb(r, GG->debug(GG, devnull)); break; } }
static void g_suffix(void *c, char *out) { char *p = out; p += sprintf(p, "%d%d", GG->addstr(GG, "nn"), GG->add(GG, "m", 2)); char *s = GG->tostring(GG); p += sprintf(p, "%s,", s ? s : "-"); free(s); l_digest(c, p); }
static fop_t L_OPS[120]; static int L_NOPS;
static void l_build(void) {
    int n = 0;
    if (L_KIND == 0) {
        ADD(L_OPS, "addfirst", "qlist_addfirst", l_add, 0, 0); ADD(L_OPS, "addlast", "qlist_addlast", l_add, 0, 1); ADD(L_OPS, "addlast(NULL)", "qlist_addlast", l_add, 0, 3); ADD(L_OPS, "addat(size 0)", "qlist_addat", l_add, 0, 4);
        for (int i = -5; i <= 5; i++) { ADD(L_OPS, "addat", "qlist_addat", l_add, i, 2); ADD(L_OPS, "getat", "qlist_getat", l_get, i, 0); ADD(L_OPS, "getat(newmem)", "qlist_getat", l_get, i, 1); ADD(L_OPS, "popat", "qlist_popat", l_pop, i, 0); ADD(L_OPS, "removeat", "qlist_removeat", l_rem, i, 0); }
        ADD(L_OPS, "getfirst(newmem)", "qlist_getfirst", l_get, 0, 2); ADD(L_OPS, "getlast(newmem)", "qlist_getlast", l_get, 0, 3); ADD(L_OPS, "popfirst", "qlist_popfirst", l_pop, 0, 1); ADD(L_OPS, "poplast", "qlist_poplast", l_pop, 0, 2); ADD(L_OPS, "removefirst", "qlist_removefirst", l_rem, 0, 1); ADD(L_OPS, "removelast", "qlist_removelast", l_rem, 0, 2);
        ADD(L_OPS, "getnext walk", "qlist_getnext", l_walkop, 0, 0); ADD(L_OPS, "getnext walk(newmem)", "qlist_getnext", l_walkop, 0, 1); ADD(L_OPS, "getnext(NULL cursor)", "qlist_getnext", l_walkop, 9, 0);
        const char *mn[] = {"size", "datasize", "reverse", "clear", "toarray", "tostring", "debug(NULL)", "debug", "setsize", "lock+unlock"};
        const char *mf[] = {"qlist_size", "qlist_datasize", "qlist_reverse", "qlist_clear", "qlist_toarray", "qlist_tostring", "qlist_debug", "qlist_debug", "qlist_setsize", "qlist_lock qlist_unlock"};
        for (int i = 0; i < 10; i++) ADD(L_OPS, mn[i], mf[i], l_misc, i, 0);
    } else if (L_KIND == 1 || L_KIND == 2) {
        const char *P = L_KIND == 1 ? "qqueue" : "qstack"; static char fb[2][80][40]; int f = 0;
#define FN(s) (snprintf(fb[L_KIND - 1][f], 40, "%s_%s", P, s), fb[L_KIND - 1][f++])
        ADD(L_OPS, "push", FN("push"), qs_push, 0, 0); ADD(L_OPS, "pushstr", FN("pushstr"), qs_push, 0, 1); ADD(L_OPS, "pushint", FN("pushint"), qs_push, 0, 2); ADD(L_OPS, "pushstr(NULL)", FN("pushstr"), qs_push, 0, 3); ADD(L_OPS, "push(NULL)", FN("push"), qs_push, 0, 4);
        ADD(L_OPS, "pop", FN("pop"), qs_pop, 0, 0); ADD(L_OPS, "popstr", FN("popstr"), qs_pop, 0, 1); ADD(L_OPS, "get", FN("get"), qs_get, 0, 0); ADD(L_OPS, "get(newmem)", FN("get"), qs_get, 0, 1); ADD(L_OPS, "getstr", FN("getstr"), qs_get, 0, 2);
        for (int i = -4; i <= 4; i++) { ADD(L_OPS, "popat", FN("popat"), qs_pop, i, 2); ADD(L_OPS, "getat", FN("getat"), qs_get, i, 3); ADD(L_OPS, "getat(newmem)", FN("getat"), qs_get, i, 4); }
        ADD(L_OPS, "getint", FN("getint"), qs_int, 0, 0); ADD(L_OPS, "popint", FN("popint"), qs_int, 0, 1);
        ADD(L_OPS, "size", FN("size"), qs_misc, 0, 0); ADD(L_OPS, "clear", FN("clear"), qs_misc, 1, 0); ADD(L_OPS, "debug(NULL)", FN("debug"), qs_misc, 2, 0); ADD(L_OPS, "debug", FN("debug"), qs_misc, 3, 0); ADD(L_OPS, "setsize", FN("setsize"), qs_misc, 4, 0);
    } else {
        const char *gn[] = {"add", "addstr", "addstrf", "add(NULL)", "size", "datasize", "toarray", "tostring", "clear", "debug(NULL)", "debug"};
        const char *gf[] = {"qgrow_add", "qgrow_addstr", "qgrow_addstrf", "qgrow_add", "qgrow_size", "qgrow_datasize", "qgrow_toarray", "qgrow_tostring", "qgrow_clear", "qgrow_debug", "qgrow_debug"};
        for (int i = 0; i < 11; i++) ADD(L_OPS, gn[i], gf[i], g_op, i, 0);
    }
    L_NOPS = n;
}

/* =============================================================== qvector */
static int V_POL;
static void *v_make(int st, int ts) { /* states: 0..3 elements with exact capacity; 4: 2 elements, capacity 4; 5: capacity 0 start, 1 element */
    int n = st % 5, cap = st < 5 ? n : st < 10 ? n + 2 : 0;      /* 15 states: n = 0..4 with exact capacity, spare capacity, capacity grown from 0 */
    int pol = V_POL == 0 ? QVECTOR_RESIZE_EXACT : V_POL == 1 ? QVECTOR_RESIZE_LINEAR : QVECTOR_RESIZE_DOUBLE;
    qvector_t *v = qvector(cap, 4, pol | (ts ? QVECTOR_THREADSAFE : 0)); if (!v) return NULL; for (int i = 0; i < n; i++) { int x = 0x41414141 + i; v->addlast(v, &x); } return v; }
static void v_digest(void *c, char *out) { qvector_t *v = c; char *p = out; p += sprintf(p, "n=%zu max=%zu osz=%zu ", v->num, v->max, v->objsize); for (size_t i = 0; i < v->num && i < 12; i++) p += sprintf(p, "%.4s ", (char *)v->data + 4 * i); }
static void v_destroy(void *c) { ((qvector_t *)c)->free(c); }
static void *v_mutex(void *c) { return ((qvector_t *)c)->qmutex; }
static void v_lock(void *c) { ((qvector_t *)c)->lock(c); } static void v_unlock(void *c) { ((qvector_t *)c)->unlock(c); }
static void v_walk(qvector_t *v, int nm, res_t *r) { qvector_obj_t o; memset(&o, 0, sizeof o); r->s[0] = 0; r->failed = 0; int n = 0; for (;;) { errno = 0; if (!v->getnext(v, &o, nm)) { if (errno == ENOMEM) r->failed = 1; break; } n++; radd(r, "%.4s,", (char *)o.data); if (nm) free(o.data); if (n > 40) break; } }
static int VX = 0x5a5a5a5a;
static void v_add(void *c, int a, int b, res_t *r) { qvector_t *v = c; switch (b) { case 0: rb(r, v->addfirst(v, &VX)); break; case 1: rb(r, v->addlast(v, &VX)); break; case 2: rb(r, v->addat(v, a, &VX)); break; case 3: rb(r, v->addlast(v, NULL)); break; } }
static void v_get(void *c, int a, int b, res_t *r) { qvector_t *v = c; void *d = b < 2 ? v->getat(v, a, b) : b == 2 ? v->getfirst(v, true) : v->getlast(v, true); rp(r, d, d ? 4 : 0, b != 0); }
static void v_set(void *c, int a, int b, res_t *r) { qvector_t *v = c; rb(r, b == 0 ? v->setat(v, a, &VX) : b == 1 ? v->setfirst(v, &VX) : v->setlast(v, &VX)); }
static void v_pop(void *c, int a, int b, res_t *r) { qvector_t *v = c; void *d = b == 0 ? v->popat(v, a) : b == 1 ? v->popfirst(v) : v->poplast(v); rp(r, d, d ? 4 : 0, 1); }
static void v_rem(void *c, int a, int b, res_t *r) { qvector_t *v = c; rb(r, b == 0 ? v->removeat(v, a) : b == 1 ? v->removefirst(v) : v->removelast(v)); }
static void v_walkop(void *c, int a, int b, res_t *r) { if (a == 9) { rb(r, ((qvector_t *)c)->getnext(c, NULL, b)); r->failed = 0; return; } v_walk(c, b, r); }
static void v_misc(void *c, int a, int b, res_t *r) { qvector_t *v = c; size_t sz = 0; switch (a) { case 0: rn(r, v->size(v), 0); break; case 1: rb(r, v->resize(v, b < 0 ? (b == -1 ? SIZE_MAX : SIZE_MAX / v->objsize + 1) : (size_t)b)); break;   /* b < 0: a capacity whose byte size cannot be allocated / does not fit into size_t */ case 2: { errno = 0; void *d = v->toarray(v, &sz); int e = errno; rp(r, d, d ? sz * 4 : 0, 1); if (!d && e == ENOENT) r->failed = 0; break; }
    case 3: { errno = 0; v->reverse(v); rb(r, errno != ENOMEM); break; } case 4: v->clear(v); rb(r, 1); break; case 5: rb(r, v->debug(v, NULL)); r->failed = 0; break; case 6: rb(r, v->debug(v, devnull)); break; case 7: v->lock(v); v->unlock(v); rb(r, 1); break; } }
static void v_suffix(void *c, char *out) { qvector_t *v = c; res_t r; char *p = out; int x = 0x4e4e4e4e; p += sprintf(p, "%d%d", v->addlast(v, &x), v->addat(v, 1, &x)); char *s = v->popfirst(v); p += sprintf(p, "%.4s,", s ? s : "-"); free(s); v->reverse(v); v_walk(v, 1, &r); p += sprintf(p, "[%s]", r.s); v_digest(v, p); }
static fop_t V_OPS[120]; static int V_NOPS;
static void v_build(void) {
    int n = 0;
    ADD(V_OPS, "addfirst", "qvector_addfirst", v_add, 0, 0); ADD(V_OPS, "addlast", "qvector_addlast", v_add, 0, 1); ADD(V_OPS, "addlast(NULL)", "qvector_addlast", v_add, 0, 3);
    for (int i = -5; i <= 5; i++) { ADD(V_OPS, "addat", "qvector_addat", v_add, i, 2); ADD(V_OPS, "getat", "qvector_getat", v_get, i, 0); ADD(V_OPS, "getat(newmem)", "qvector_getat", v_get, i, 1); ADD(V_OPS, "setat", "qvector_setat", v_set, i, 0); ADD(V_OPS, "popat", "qvector_popat", v_pop, i, 0); ADD(V_OPS, "removeat", "qvector_removeat", v_rem, i, 0); }
    ADD(V_OPS, "getfirst(newmem)", "qvector_getfirst", v_get, 0, 2); ADD(V_OPS, "getlast(newmem)", "qvector_getlast", v_get, 0, 3); ADD(V_OPS, "setfirst", "qvector_setfirst", v_set, 0, 1); ADD(V_OPS, "setlast", "qvector_setlast", v_set, 0, 2);
    ADD(V_OPS, "popfirst", "qvector_popfirst", v_pop, 0, 1); ADD(V_OPS, "poplast", "qvector_poplast", v_pop, 0, 2); ADD(V_OPS, "removefirst", "qvector_removefirst", v_rem, 0, 1); ADD(V_OPS, "removelast", "qvector_removelast", v_rem, 0, 2);
    ADD(V_OPS, "getnext walk", "qvector_getnext", v_walkop, 0, 0); ADD(V_OPS, "getnext walk(newmem)", "qvector_getnext", v_walkop, 0, 1); ADD(V_OPS, "getnext(NULL cursor)", "qvector_getnext", v_walkop, 9, 0);
    ADD(V_OPS, "size", "qvector_size", v_misc, 0, 0); for (int m = -2; m <= 5; m++) ADD(V_OPS, m < 0 ? "resize(huge)" : "resize", "qvector_resize", v_misc, 1, m);
    ADD(V_OPS, "toarray", "qvector_toarray", v_misc, 2, 0); ADD(V_OPS, "reverse", "qvector_reverse", v_misc, 3, 0); ADD(V_OPS, "clear", "qvector_clear", v_misc, 4, 0); ADD(V_OPS, "debug(NULL)", "qvector_debug", v_misc, 5, 0); ADD(V_OPS, "debug", "qvector_debug", v_misc, 6, 0); ADD(V_OPS, "lock+unlock", "qvector_lock qvector_unlock", v_misc, 7, 0);
    V_NOPS = n;
}

/* =============================================================== qhasharr (C15 only: handle, get, getnext, putstrf) */
static unsigned char HA_MEM[16][2048];
static int ha_cur;
static void *ha_make(int st, int ts) { (void)ts; ha_cur = (ha_cur + 1) & 15; size_t sz = qhasharr_calculate_memsize(6); qhasharr_t *t = qhasharr(HA_MEM[ha_cur], sz); if (!t) return NULL; static const char big[80] = "0123456789012345678901234567890123456789012345678901234567890123456789"; for (int i = 0; i < st && i < 3; i++) t->put(t, KS[i], i == 1 ? big : "v", i == 1 ? 70 : 2); return t; }
static void ha_digest(void *c, char *out) { qhasharr_t *t = c; int mx, us; int n = t->size(t, &mx, &us); char *p = out; p += sprintf(p, "n=%d/%d/%d ", n, mx, us); p += sprintf(p, "%llx", (unsigned long long)vc_hash(t->data, qhasharr_calculate_memsize(6))); }
static void ha_destroy(void *c) { ((qhasharr_t *)c)->free(c); }
static void *ha_mutex(void *c) { (void)c; return NULL; }
static void ha_nolock(void *c) { (void)c; }
static void ha_op(void *c, int a, int b, res_t *r) { qhasharr_t *t = c; size_t sz = 0; switch (b) {
    case 0: { void *d = t->get(t, KS[a], &sz); rp(r, d, d ? sz : 0, 1); if (!d && errno == ENOENT) r->failed = 0; break; }
    case 1: { char *d = t->getstr(t, KS[a]); rp(r, d, d ? strlen(d) + 1 : 0, 1); if (!d && errno == ENOENT) r->failed = 0; break; }
    case 2: rb(r, t->putstrf(t, KS[a], "f%d", 9)); break; case 3: rb(r, t->put(t, KS[a], "w2", 3)); break; case 4: rb(r, t->remove(t, KS[a])); if (errno == ENOENT) r->failed = 0; break;
    case 5: { int idx = 0, n = 0; qhasharr_obj_t o; r->s[0] = 0; r->failed = 0; for (;;) { errno = 0; if (!t->getnext(t, &o, &idx)) { if (errno == ENOMEM) r->failed = 1; break; } if (++n > 8) break; radd(r, "%s=%zu,", (char *)o.name, o.datasize); free(o.name); free(o.data); } break; }
    case 6: { qhasharr_t *t2 = qhasharr(t->data, 0); rb(r, t2 != NULL); if (t2) t2->free(t2); break; }
    case 7: rb(r, t->debug(t, devnull)); break; } }
static void ha_suffix(void *c, char *out) { qhasharr_t *t = c; char *p = out; p += sprintf(p, "%d%d", t->putstr(t, "n", "nv"), t->putstr(t, "a", "a2")); for (int i = 0; i < 5; i++) { char *s = t->getstr(t, KS[i]); p += sprintf(p, "%.6s,", s ? s : "-"); free(s); } p += sprintf(p, "%d", t->remove(t, "b")); ha_digest(t, p); }
static fop_t HA_OPS[40]; static int HA_NOPS;
static void ha_build(void) { int n = 0; const char *nm[] = {"get", "getstr", "putstrf", "put", "remove", "getnext walk", "attach second handle", "debug"}; const char *fn[] = {"qhasharr_get", "qhasharr_getstr", "qhasharr_putstrf", "qhasharr_put", "qhasharr_remove", "qhasharr_getnext", "qhasharr", "qhasharr_debug"};
    for (int b = 0; b < 8; b++) for (int k = 0; k < 5; k += (b < 5 ? 2 : 5)) ADD(HA_OPS, nm[b], fn[b], ha_op, k, b); HA_NOPS = n; }

/* =============================================================== qlog (C14 only) */
static char log_path[600];
static int lg_have_full;
static void *lg_make(int st, int ts) { return qlog(st == 1 ? "/dev/full" : log_path, 0, 0, (ts ? QLOG_OPT_THREADSAFE : 0) | (st == 2 ? QLOG_OPT_FLUSH : 0)); }
static void lg_digest(void *c, char *out) { qlog_t *l = c; sprintf(out, "fp=%d", l->fp != NULL); }
static void lg_destroy(void *c) { ((qlog_t *)c)->free(c); }
static void *lg_mutex(void *c) { return ((qlog_t *)c)->qmutex; }
static void lg_op(void *c, int a, int b, res_t *r) { qlog_t *l = c; (void)b; switch (a) { case 0: rb(r, l->write(l, "line")); break; case 1: rb(r, l->writef(l, "line %d", 3)); break; case 2: rb(r, l->duplicate(l, devnull, true)); break; case 3: l->flush(l); rb(r, 1); break; case 4: l->duplicate(l, devnull, false); rb(r, l->write(l, "dup")); break;
    case 5: { static char big[70000]; if (!big[0]) { memset(big, 'x', sizeof big - 1); } rb(r, l->write(l, big)); break; }      /* larger than the stdio buffer: on /dev/full the write fails inside the call */
    case 6: { static char big[70000]; if (!big[0]) { memset(big, 'y', sizeof big - 1); } rb(r, l->writef(l, "%s", big)); break; } } }
static void lg_suffix(void *c, char *out) { qlog_t *l = c; sprintf(out, "%d", l->write(l, "suffix")); }
static fop_t LG_OPS[12]; static int LG_NOPS;
static void lg_build(void) { int n = 0; const char *nm[] = {"write", "writef", "duplicate", "flush", "duplicate+write", "write(64KiB)", "writef(64KiB)"}; const char *fn[] = {"qlog_write", "qlog_writef", "qlog_duplicate", "qlog_flush", "qlog_write", "qlog_write", "qlog_writef"}; for (int i = 0; i < 7; i++) ADD(LG_OPS, nm[i], fn[i], lg_op, i, 0); LG_NOPS = n; }

/* =============================================================== engine */
static subject_t SUBJ; static int TS;
static long n_cases, n_hit, n_not_hit, n_reported_fail, n_completed, n_lockchecks, n_probe;
static char OUTC[64][160]; static int n_outc;
static void outcome(const char *fn, const char *cls) { char b[160]; snprintf(b, sizeof b, "%s %s", fn, cls); vc_outcome(b); }

static void check_lock(void *c, int entry, const char *label, const char *what) {
    if (!TS || !SUBJ.mutex(c)) return;
    n_lockchecks++;
    if (lk_depth != entry) { char cls[160]; snprintf(cls, sizeof cls, "lock:leaked:%s", label); vc_viol(cls, "%s: %s returned with the container lock at depth %d (entry depth %d)", what, label, lk_depth, entry); }
    if (entry == 0) { n_probe++; if (probe_blocked(lk_mutex) && lk_depth == 0) { char cls[160]; snprintf(cls, sizeof cls, "lock:held:%s", label); vc_viol(cls, "%s: after %s a second thread cannot take the container lock", what, label); } }
}
/* force the mutex back to depth `to` so that the object can be used / destroyed */
static void fix_depth(int to) { while (lk_depth > to && lk_mutex) __wrap_pthread_mutex_unlock(lk_mutex); }

/* one execution: build state, [lock], arm plan, op, disarm, observe. plan k = 0: count only */
typedef struct { res_t r; char dig[1024], suf[2048]; long ncalls, nfailed; int lockbad; } exec_t;
static int run_exec(int st, const fop_t *op, int entry, long k, int from, int dosuffix, exec_t *e, const char *what) {
    void *c = SUBJ.make(st, TS);
    if (!c) return -1;
    void *qm = SUBJ.mutex(c); lk_mutex = qm ? &((qmutex_t *)qm)->mutex : NULL; lk_depth = 0; lk_spins = 0;
    if (entry && lk_mutex) SUBJ.lock(c);
    int d0 = lk_depth;
    memset(&e->r, 0, sizeof e->r);
    va_arm(k, from); errno = 0;
    op->f(c, op->a, op->b, &e->r);
    e->ncalls = va_calls; e->nfailed = va_failed; va_disarm();
    int before_fix = lk_depth;
    check_lock(c, d0, op->fn, what);
    e->lockbad = before_fix != d0;
    fix_depth(d0);
    if (entry && lk_mutex) SUBJ.unlock(c);
    fix_depth(0);
    SUBJ.digest(c, e->dig);
    e->suf[0] = 0;
    if (dosuffix) SUBJ.suffix(c, e->suf);
    fix_depth(0);
    SUBJ.destroy(c);
    lk_mutex = NULL;
    return 0;
}
static void run_subject(void) {
    static exec_t ref, before, ex; char key[256], what[200];
    for (int st = 0; st < SUBJ.nstates; st++) for (int oi = 0; oi < SUBJ.nops; oi++) for (int entry = 0; entry <= (TS && SUBJ.lock != ha_nolock ? 1 : 0); entry++) {
        const fop_t *op = &SUBJ.ops[oi];
        snprintf(what, sizeof what, "%s state %d op %d '%s'(%d,%d) entry-depth %d", SUBJ.name, st, oi, op->label, op->a, op->b, entry);
        snprintf(key, sizeof key, "fault:%s:%d:%d:%d:%d:0:0", SUBJ.name, TS, st, oi, entry);
        if (!vc_case(op->fn, key)) continue;
        long live0 = va_live;
        /* fault-free reference: result, successor digest, suffix digest; and the "before" digests */
        if (run_exec(st, op, entry, 0, 0, 1, &ref, what) < 0) { vc_viol("fault:make-failed", "%s: cannot build the state", what); vc_case_end(); continue; }
        long N = ref.ncalls;
        { void *c = SUBJ.make(st, TS); SUBJ.digest(c, before.dig); SUBJ.suffix(c, before.suf); SUBJ.destroy(c); }
        if (va_live != live0) { char cls[160]; snprintf(cls, sizeof cls, "fault:leak-faultfree:%s", op->fn); vc_viol(cls, "%s: %ld blocks leaked without any fault", what, va_live - live0); }
        n_cases++;
        { const char *a = vc_asan_check(); if (a) { char cls[160]; snprintf(cls, sizeof cls, "asan:%s:%s", a, op->fn); vc_viol(cls, "%s: sanitizer report without any fault", what); } }
        outcome(op->fn, ref.r.failed ? "fault-free:failure-value" : "fault-free:ok");
        vc_case_end();
        for (int from = 0; from < 2; from++) for (long k = 1; k <= N; k++) {
            if (from && k == N) continue;       /* identical to the single failure of the last allocation */
            snprintf(key, sizeof key, "fault:%s:%d:%d:%d:%d:%ld:%d", SUBJ.name, TS, st, oi, entry, k, from);
            if (!vc_case(op->fn, key)) continue;
            n_cases++;
            long l0 = va_live;
            run_exec(st, op, entry, k, from, 1, &ex, what);
            if (ex.nfailed == 0) n_not_hit++; else n_hit++;
            char cls[200];
            if (!strcmp(ex.r.s, ref.r.s) && ex.r.failed == ref.r.failed) {
                n_completed++; outcome(op->fn, "fault:completed");
                if (strcmp(ex.dig, ref.dig)) { snprintf(cls, sizeof cls, "fault:completed-but-differs:%s", op->fn); vc_viol(cls, "%s, fail %s#%ld of %ld: same return value as the fault-free run but the container differs: [%s] vs [%s]", what, from ? "all from " : "", k, N, ex.dig, ref.dig); }
                else if (strcmp(ex.suf, ref.suf)) { snprintf(cls, sizeof cls, "fault:later-ops-differ:%s", op->fn); vc_viol(cls, "%s, fail %s#%ld of %ld: later operations behave differently from the fault-free run", what, from ? "all from " : "", k, N); }
            } else if (ex.r.failed) {
                n_reported_fail++; outcome(op->fn, "fault:reported-failure");
                if (strcmp(ex.dig, before.dig)) { snprintf(cls, sizeof cls, "fault:failure-changed-state:%s", op->fn); vc_viol(cls, "%s, fail %s#%ld of %ld: the call reported failure (%s) but the container changed: [%s] was [%s]", what, from ? "all from " : "", k, N, ex.r.s, ex.dig, before.dig); }
                else if (strcmp(ex.suf, before.suf)) { snprintf(cls, sizeof cls, "fault:later-ops-differ:%s", op->fn); vc_viol(cls, "%s, fail %s#%ld of %ld: after the reported failure later operations behave differently", what, from ? "all from " : "", k, N); }
            } else { snprintf(cls, sizeof cls, "fault:wrong-result:%s", op->fn); vc_viol(cls, "%s, fail %s#%ld of %ld: returned [%s] - neither the fault-free result [%s] nor a failure", what, from ? "all from " : "", k, N, ex.r.s, ref.r.s); }
            if (va_live != l0) { snprintf(cls, sizeof cls, "fault:leak:%s", op->fn); vc_viol(cls, "%s, fail %s#%ld of %ld: %ld blocks never freed", what, from ? "all from " : "", k, N, va_live - l0); va_live = l0; }
            const char *a = vc_asan_check(); if (a) { snprintf(cls, sizeof cls, "asan:%s:%s", a, op->fn); vc_viol(cls, "%s, fail %s#%ld of %ld: sanitizer report", what, from ? "all from " : "", k, N); }
            vc_case_end();
        }
    }
}
/* constructors under faults: either NULL (and nothing leaked) or a usable object */
static void run_ctor(void) {
    char key[200];
    for (int ts = 0; ts <= 1; ts++) {
        TS = ts;
        int cst = !strncmp(SUBJ.name, "qvector", 7) ? 5 : 0;     /* vector: an empty vector with capacity 2, so that the buffer allocation is part of the constructor */
        long N; { va_arm(0, 0); void *d = SUBJ.make(cst, ts); N = va_calls; va_disarm(); if (d) SUBJ.destroy(d); }
        for (int from = 0; from < 2; from++) for (long k = 1; k <= N; k++) {
            snprintf(key, sizeof key, "ctor:%s:%d:%ld:%d", SUBJ.name, ts, k, from);
            if (!vc_case(SUBJ.name, key)) continue;
            n_cases++; long l0 = va_live; lk_mutex = NULL;
            va_arm(k, from); errno = 0; void *o = SUBJ.make(cst, ts); int e = errno; long nf = va_failed; va_disarm();
            if (nf) n_hit++; else n_not_hit++;
            char cls[160], suf[2048];
            if (o) { n_completed++; SUBJ.suffix(o, suf); SUBJ.destroy(o); outcome(SUBJ.name, "ctor:completed"); }
            else { n_reported_fail++; outcome(SUBJ.name, "ctor:reported-failure"); if (e != ENOMEM && strcmp(SUBJ.name, "qlog")) { snprintf(cls, sizeof cls, "fault:ctor-errno:%s", SUBJ.name); vc_viol(cls, "constructor %s(ts=%d) failed with errno %d, not ENOMEM", SUBJ.name, ts, e); } }
            if (va_live != l0) { snprintf(cls, sizeof cls, "fault:leak:%s-constructor", SUBJ.name); vc_viol(cls, "constructor %s(ts=%d), fail %s#%ld of %ld: %ld blocks never freed", SUBJ.name, ts, from ? "all from " : "", k, N, va_live - l0); va_live = l0; }
            const char *a = vc_asan_check(); if (a) { snprintf(cls, sizeof cls, "asan:%s:%s-constructor", a, SUBJ.name); vc_viol(cls, "constructor under fault: sanitizer report"); }
            vc_case_end();
        }
    }
}

static int setup_subject(const char *name) {
    memset(&SUBJ, 0, sizeof SUBJ);
#define SETS(NM, NST, MK, DG, DS, MX, LK, UL, SF, OPS_, NOPS_) do { SUBJ.name = NM; SUBJ.nstates = NST; SUBJ.make = MK; SUBJ.digest = DG; SUBJ.destroy = DS; SUBJ.mutex = MX; SUBJ.lock = LK; SUBJ.unlock = UL; SUBJ.suffix = SF; SUBJ.ops = OPS_; SUBJ.nops = NOPS_; } while (0)
    if (!strcmp(name, "qtreetbl")) { t_genstates(1); t_build(); SETS("qtreetbl", T_NSTATES, t_make, t_digest, t_destroy, t_mutex, t_lock, t_unlock, t_suffix, T_OPS, T_NOPS); }
    else if (!strncmp(name, "qhashtbl", 8)) { H_RANGE = name[8] ? atoi(name + 9) : 2; h_build(); SETS(name, (int)(sizeof H_STATES / sizeof H_STATES[0]), h_make, h_digest, h_destroy, h_mutex, h_lock, h_unlock, h_suffix, H_OPS, H_NOPS); }
    else if (!strncmp(name, "qlisttbl", 8)) { int o = name[8] ? atoi(name + 9) : 0; LT_OPT = o << 1; lt_build(); SETS(name, 42, lt_make, lt_digest, lt_destroy, lt_mutex, lt_lock, lt_unlock, lt_suffix, LT_OPS, LT_NOPS); }
    else if (!strcmp(name, "qlist") || !strcmp(name, "qqueue") || !strcmp(name, "qstack") || !strcmp(name, "qgrow")) { L_KIND = !strcmp(name, "qlist") ? 0 : !strcmp(name, "qqueue") ? 1 : !strcmp(name, "qstack") ? 2 : 3; l_build(); SETS(name, L_KIND == 3 ? 4 : L_KIND == 0 ? 5 : 6, l_make, l_digest, l_destroy, l_mutex, l_lock, l_unlock, l_suffix, L_OPS, L_NOPS); if (L_KIND == 3) SUBJ.suffix = g_suffix; }
    else if (!strncmp(name, "qvector", 7)) { V_POL = name[7] ? atoi(name + 8) : 0; v_build(); SETS(name, 15, v_make, v_digest, v_destroy, v_mutex, v_lock, v_unlock, v_suffix, V_OPS, V_NOPS); }
    else if (!strcmp(name, "qhasharr")) { ha_build(); SETS("qhasharr", 4, ha_make, ha_digest, ha_destroy, ha_mutex, ha_nolock, ha_nolock, ha_suffix, HA_OPS, HA_NOPS); }
    else if (!strcmp(name, "qlog")) { lg_build(); { FILE *f = fopen("/dev/full", "a"); lg_have_full = f != NULL; if (f) fclose(f); if (!lg_have_full) printf("NOTE\t/dev/full is not available: the I/O-error outcome of qlog write is not exercised\n"); } SETS("qlog", lg_have_full ? 3 : 1, lg_make, lg_digest, lg_destroy, lg_mutex, ha_nolock, ha_nolock, lg_suffix, LG_OPS, LG_NOPS); }
    else return -1;
    return 0;
}
static int worker(int argc, char **argv) {
    devnull = fopen("/dev/null", "w");
    const char *tmp = getenv("TMPDIR") ? getenv("TMPDIR") : "/tmp";
    snprintf(lt_path, sizeof lt_path, "%s/fault_save_%d.txt", tmp, (int)getpid()); snprintf(lt_loadpath, sizeof lt_loadpath, "%s/fault_load_%d.txt", tmp, (int)getpid()); snprintf(log_path, sizeof log_path, "%s/fault_log_%d.txt", tmp, (int)getpid());
    { FILE *f = fopen(lt_loadpath, "w"); if (f) { fputs("# c\nx=1\ny=%41\n", f); fclose(f); } }
    sem_init(&pr_req, 0, 0); sem_init(&pr_ack, 0, 0); pthread_t th; pthread_create(&th, NULL, probe_main, NULL);
    if (vc_replay_key) {
        char nm[64]; int ts, st, oi, entry, from; long k;
        if (sscanf(vc_replay_key, "fault:%63[^:]:%d:%d:%d:%d:%ld:%d", nm, &ts, &st, &oi, &entry, &k, &from) == 7) {
            if (setup_subject(nm)) return 1;
            TS = ts; static exec_t e; const fop_t *op = &SUBJ.ops[oi]; vc_case(op->fn, vc_replay_key);
            run_exec(st, op, entry, k, from, 1, &e, "replay");
            printf("NOTE\tstate %d op '%s'(%d,%d) plan k=%ld from=%d: result [%s] failed=%d allocations=%ld failed=%ld lock-imbalance=%d\nNOTE\tcontainer [%s]\n", st, op->label, op->a, op->b, k, from, e.r.s, e.r.failed, e.ncalls, e.nfailed, e.lockbad, e.dig);
        }
        /* and the whole (state, op) family so that the differential oracle reports */
        return 0;
    }
    if (argc < 3) return 1;
    if (setup_subject(argv[1])) return 1;
    TS = atoi(argv[2]);
    if (argc > 3 && !strcmp(argv[3], "ctor")) run_ctor(); else run_subject();
    unlink(lt_path); unlink(lt_loadpath); unlink(log_path);
    vc_stat_add("evaluations", n_cases); vc_stat_add("nontrivial", n_hit); vc_stat_add("fault_hit", n_hit); vc_stat_add("fault_not_hit", n_not_hit); vc_stat_add("reported_failure", n_reported_fail); vc_stat_add("completed_under_fault", n_completed);
    vc_stat_add("lock_depth_checks", n_lockchecks); vc_stat_add("probe_thread_checks", n_probe); vc_stat_add("functions", SUBJ.nops);
    /* function coverage list for the header cross-check */
    char fl[4096] = ""; for (int i = 0; i < SUBJ.nops; i++) if (!strstr(fl, SUBJ.ops[i].fn)) { strncat(fl, SUBJ.ops[i].fn, sizeof fl - strlen(fl) - 2); strcat(fl, " "); }
    printf("NOTE\tfunctions %s: %s\n", SUBJ.name, fl);
    vc_sample("%s state %d x op '%s' x entry depth x fail #k of N allocations (single / all-from)", SUBJ.name, SUBJ.nstates - 1, SUBJ.ops[0].label);
    (void)OUTC; (void)n_outc;
    return 0;
}
int main(int argc, char **argv) { return vc_main(argc, argv, worker); }
