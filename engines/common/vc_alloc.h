/* vc_alloc.h - link-time allocation seam (-Wl,--wrap=malloc,calloc,realloc,strdup,free).
 *  - live-block ledger (allocations minus frees seen through the wrappers)
 *  - fault plans for E3: fail exactly the k-th allocation since va_arm(), or every one from the k-th on
 * Include in exactly one TU of binaries linked with those --wrap flags.
 */
#ifndef VC_ALLOC_H
#define VC_ALLOC_H
#include <stdlib.h>
#include <string.h>
#include <errno.h>

void *__real_malloc(size_t);
void *__real_calloc(size_t, size_t);
void *__real_realloc(void *, size_t);
void __real_free(void *);

static long va_live;          /* blocks currently allocated through the wrappers */
static long va_calls;         /* allocation calls since va_arm() */
static long va_fail_at = -1;  /* 1-based index of the allocation to fail, -1 = none */
static int va_fail_from;      /* fail every allocation from va_fail_at on */
static long va_failed;        /* how many allocations were failed since va_arm() */
static int va_armed;

static inline void va_arm(long k, int from) { va_calls = 0; va_failed = 0; va_fail_at = k; va_fail_from = from; va_armed = 1; }
static inline void va_disarm(void) { va_armed = 0; va_fail_at = -1; }
static inline int va_should_fail(void) {
    if (!va_armed) return 0;
    va_calls++;
    if (va_fail_at > 0 && (va_calls == va_fail_at || (va_fail_from && va_calls > va_fail_at))) { va_failed++; errno = ENOMEM; return 1; }
    return 0;
}
/* a request no machine can satisfy is refused here, as the allocator would, without filling the sanitizer's log */
#define VA_IMPOSSIBLE ((size_t)1 << 48)
void *__wrap_malloc(size_t n) { if (va_should_fail()) return NULL; if (n > VA_IMPOSSIBLE) { errno = ENOMEM; return NULL; } void *p = __real_malloc(n); if (p) va_live++; return p; }
void *__wrap_calloc(size_t a, size_t b) { if (va_should_fail()) return NULL; if (a > VA_IMPOSSIBLE || b > VA_IMPOSSIBLE) { errno = ENOMEM; return NULL; } void *p = __real_calloc(a, b); if (p) va_live++; return p; }
void *__wrap_realloc(void *o, size_t n) {
    if (va_should_fail()) return NULL;
    if (n > VA_IMPOSSIBLE) { errno = ENOMEM; return NULL; }
    void *p = __real_realloc(o, n);
    if (o == NULL && p) va_live++;
    else if (o != NULL && n == 0 && p == NULL) va_live--;
    return p;
}
char *__wrap_strdup(const char *s) { size_t n = strlen(s) + 1; char *p = __wrap_malloc(n); if (p) memcpy(p, s, n); return p; }
void __wrap_free(void *p) { if (p) va_live--; __real_free(p); }
#define VA_WRAPS "malloc", "calloc", "realloc", "strdup", "free"
#endif
