/* vc.h - harness support shared by all engines (header-only; include in exactly one TU per binary).
 *
 *  - line protocol to the driver (STAT / SAMPLE / OUTCOME / VIOL / DONE)
 *  - supervised worker: the exploration runs in a forked child that publishes the case it is
 *    about to run in shared memory; a child that dies or hangs turns into a VIOL for that case,
 *    the case goes on a skip list and the exploration is restarted (deterministic, so the
 *    restart reaches the same point and steps over it)
 *  - sanitizer as oracle: __asan_on_error counts reports and remembers the kind
 *  - CPU-time watchdog: a periodic ITIMER_VIRTUAL tick; a case that survives VC_HANG_TICKS
 *    ticks is a hang
 */
#ifndef VC_H
#define VC_H
#include <stdio.h>
#include <fnmatch.h>
#include <stdlib.h>
#include <string.h>
#include <stdarg.h>
#include <stdint.h>
#include <stdbool.h>
#include <errno.h>
#include <signal.h>
#include <unistd.h>
#include <time.h>
#include <sys/mman.h>
#include <sys/time.h>
#include <sys/wait.h>
#include <sys/resource.h>
#include <sys/prctl.h>

#define VC_KEYMAX 16384
#define VC_MAXSKIP 4096
#define VC_MAXCLS 256

struct vc_shared {
    volatile unsigned long seq;      /* bumped at every case start */
    volatile int in_case;
    volatile int hang_flag;
    volatile int asan_count;
    char asan_desc[96];
    char label[192];
    char key[VC_KEYMAX];
    int nskip;
    uint64_t skip[VC_MAXSKIP];
    volatile int ubsan_flag;
    char abort_cls[160];             /* set by vc_abort_case() before _exit(96) */
};
static struct vc_shared *vc_sh;
static const char *vc_replay_key;     /* non-NULL in --replay mode */
static int vc_hang_ticks = 4;         /* CPU seconds a single case may take */
static double vc_deadline;            /* absolute CLOCK_MONOTONIC seconds, 0 = none */
static int vc_exhaustive = 1;
static long vc_nviol;

static inline double vc_now(void) {
    struct timespec ts; clock_gettime(CLOCK_MONOTONIC, &ts); return ts.tv_sec + ts.tv_nsec * 1e-9;
}
static inline int vc_deadline_hit(void) {
    if (vc_deadline > 0 && vc_now() > vc_deadline) { vc_exhaustive = 0; return 1; }
    return 0;
}
static inline uint64_t vc_hash(const void *p, size_t n) {
    const unsigned char *s = p; uint64_t h = 1469598103934665603ULL;
    for (size_t i = 0; i < n; i++) { h ^= s[i]; h *= 1099511628211ULL; }
    return h;
}

/* ---------------- stats / samples / outcomes ---------------- */
#define VC_MAXSTAT 128
static struct { char name[64]; long v; } vc_stats[VC_MAXSTAT];
static int vc_nstats;
static inline void vc_stat_add(const char *name, long v) {
    for (int i = 0; i < vc_nstats; i++) if (!strcmp(vc_stats[i].name, name)) {
        if (!strncmp(name, "max_", 4)) { if (v > vc_stats[i].v) vc_stats[i].v = v; } else vc_stats[i].v += v;
        return;
    }
    if (vc_nstats < VC_MAXSTAT) { snprintf(vc_stats[vc_nstats].name, 64, "%s", name); vc_stats[vc_nstats++].v = v; }
}
static int vc_nsamples, vc_maxsamples = 6;
static inline void vc_sample(const char *fmt, ...) {
    if (vc_nsamples >= vc_maxsamples) return;
    vc_nsamples++;
    va_list ap; va_start(ap, fmt); printf("SAMPLE\t"); vprintf(fmt, ap); printf("\n"); va_end(ap);
}
/* distinct outcomes: fixed open hash set of 64-bit hashes (no allocation: the harness may be counting them);
 * the first few are printed verbatim */
#define VC_OCCAP (1 << 17)
static uint64_t vc_oc[VC_OCCAP]; static size_t vc_ocn;
static inline int vc_outcome(const char *s) {
    uint64_t h = vc_hash(s, strlen(s)) | 1;
    if (vc_ocn * 2 > VC_OCCAP) return 0;
    size_t j = h & (VC_OCCAP - 1);
    while (vc_oc[j]) { if (vc_oc[j] == h) return 0; j = (j + 1) & (VC_OCCAP - 1); }
    vc_oc[j] = h; vc_ocn++;
    if (vc_ocn <= 24) printf("OUTCOME\t%s\n", s);
    return 1;
}

/* ---------------- violations ---------------- */
static struct { char cls[160]; long n; } vc_cls[VC_MAXCLS];
static int vc_ncls;
static int vc_viol_print_per_class = 3;
static inline void vc_sanitize(char *s) { for (; *s; s++) if (*s == '\t' || *s == '\n' || *s == '\r') *s = ' '; }
/* the property being checked owns a set of class patterns (env VC_CLASSES, from registry.py): only its own violations count
 * towards the "enough counterexamples" cap of a search, so that a flood of another oracle's findings on the same search does
 * not end the search before this property's oracle has seen the damaged states */
static long vc_nviol_rel;
static int vc_class_relevant(const char *c) {
    static const char *pats; static int init;
    if (!init) { pats = getenv("VC_CLASSES"); init = 1; }
    if (!pats || !*pats || !strncmp(c, "crash:", 6) || !strncmp(c, "hang:", 5)) return 1;
    char buf[1024]; snprintf(buf, sizeof buf, "%s", pats);
    for (char *t = strtok(buf, ","); t; t = strtok(NULL, ",")) if (fnmatch(t, c, 0) == 0) return 1;
    return 0;
}
#define VC_ENOUGH_VIOLATIONS() (vc_nviol_rel > 400 || vc_nviol > 20000)
static void vc_viol_key(const char *cls, const char *key, const char *fmt, ...) {
    char c[160], d[1024];
    snprintf(c, sizeof c, "%s", cls); vc_sanitize(c);
    va_list ap; va_start(ap, fmt); vsnprintf(d, sizeof d, fmt, ap); va_end(ap); vc_sanitize(d);
    vc_nviol++;
    if (vc_class_relevant(c)) vc_nviol_rel++;
    int i;
    for (i = 0; i < vc_ncls; i++) if (!strcmp(vc_cls[i].cls, c)) break;
    if (i == vc_ncls) { if (vc_ncls < VC_MAXCLS) { strcpy(vc_cls[vc_ncls].cls, c); vc_cls[vc_ncls++].n = 0; } else i = VC_MAXCLS - 1; }
    if (vc_cls[i].n++ < vc_viol_print_per_class || vc_replay_key) {
        printf("VIOL\t%s\t%s\t%s\n", c, d, key); fflush(stdout);
    }
}
#define vc_viol(cls, ...) vc_viol_key(cls, vc_sh->key, __VA_ARGS__)

/* ---------------- sanitizer hooks ---------------- */
#ifdef VC_ASAN
const char *__asan_get_report_description(void);
void __asan_on_error(void) {
    if (!vc_sh) return;
    vc_sh->asan_count++;
    const char *d = __asan_get_report_description();
    snprintf(vc_sh->asan_desc, sizeof vc_sh->asan_desc, "%s", d ? d : "unknown");
}
#endif
static int vc_asan_mark;
/* returns the ASan report kind if a report was raised since the case began */
static inline const char *vc_asan_check(void) {
    if (vc_sh->asan_count != vc_asan_mark) { vc_asan_mark = vc_sh->asan_count; return vc_sh->asan_desc; }
    return NULL;
}

/* ---------------- uninitialised-stack oracle ---------------- */
/* Before every case the stack below the harness frame is filled with 0xA5, so that an automatic variable the
 * library reads before writing it holds a wild pattern instead of whatever an earlier call left there (often a
 * harmless NULL): a pointer of that kind faults, a counter of that kind breaks the functional oracle. */
static size_t vc_dirty_bytes = 32768;
static void __attribute__((noinline)) vc_dirty_stack(void) {
    if (!vc_dirty_bytes) return;
    volatile unsigned char *p = __builtin_alloca(vc_dirty_bytes);
    memset((void *)p, 0xA5, vc_dirty_bytes);
    __asm__ volatile("" : : "r"(p) : "memory");
}
/* ---------------- case bookkeeping ---------------- */
static inline int vc_skipped(const char *key) {
    if (!vc_sh->nskip) return 0;
    uint64_t h = vc_hash(key, strlen(key));
    for (int i = 0; i < vc_sh->nskip; i++) if (vc_sh->skip[i] == h) return 1;
    return 0;
}
/* Announce the case about to run. Returns 0 if it is on the skip list (already reported). */
static inline int vc_case(const char *label, const char *key) {
    size_t n = strlen(key); if (n >= VC_KEYMAX) n = VC_KEYMAX - 1;
    vc_sh->in_case = 0;
    memcpy(vc_sh->key, key, n); vc_sh->key[n] = 0;
    if (label) { size_t l = strlen(label); if (l >= sizeof vc_sh->label) l = sizeof vc_sh->label - 1; memcpy(vc_sh->label, label, l); vc_sh->label[l] = 0; }
    vc_sh->seq++;
    if (vc_skipped(vc_sh->key)) return 0;
    vc_asan_mark = vc_sh->asan_count;
    vc_sh->in_case = 1;
    vc_dirty_stack();
    return 1;
}
static inline void vc_label(const char *label) { snprintf(vc_sh->label, sizeof vc_sh->label, "%s", label); }
static inline void vc_case_end(void) { vc_sh->in_case = 0; }
static const char vc_hexd[] = "0123456789abcdef";
static inline char *vc_hex(char *out, const void *p, size_t n) {
    const unsigned char *s = p; for (size_t i = 0; i < n; i++) { *out++ = vc_hexd[s[i] >> 4]; *out++ = vc_hexd[s[i] & 15]; } *out = 0; return out;
}
static inline size_t vc_unhex(const char *h, unsigned char *out) {
    size_t n = 0; while (h[0] && h[1]) { unsigned v; sscanf(h, "%2x", &v); out[n++] = v; h += 2; } return n;
}

/* give up on the current case from inside (e.g. a progress budget was exceeded): the supervisor
 * reports class cls for the published case and restarts past it */
static void vc_abort_case(const char *cls) {
    snprintf(vc_sh->abort_cls, sizeof vc_sh->abort_cls, "%s", cls);
    fflush(stdout);
    _exit(96);
}
/* ---------------- watchdog ---------------- */
static unsigned long vc_wd_seq; static int vc_wd_ticks;
static void vc_wd_handler(int sig) {
    (void)sig;
    if (vc_sh->seq == vc_wd_seq && vc_sh->in_case) {
        if (++vc_wd_ticks >= vc_hang_ticks) { vc_sh->hang_flag = 1; _exit(97); }
    } else { vc_wd_seq = vc_sh->seq; vc_wd_ticks = 0; }
}
static void vc_wd_start(void) {
    struct sigaction sa; memset(&sa, 0, sizeof sa); sa.sa_handler = vc_wd_handler; sigaction(SIGVTALRM, &sa, NULL);
    struct itimerval it = {{1, 0}, {1, 0}}; setitimer(ITIMER_VIRTUAL, &it, NULL);
}

#ifdef VC_COVERAGE
void __gcov_dump(void);
#define VC_GCOV_DUMP() __gcov_dump()
#else
#define VC_GCOV_DUMP() ((void)0)
#endif
/* ---------------- supervisor ---------------- */
static void vc_flush_stats(void) {
    for (int i = 0; i < vc_nstats; i++) printf("STAT\t%s\t%ld\n", vc_stats[i].name, vc_stats[i].v);
    printf("STAT\tdistinct_outcomes_total\t%zu\n", vc_ocn);
    for (int i = 0; i < vc_ncls; i++) printf("NOTE\tviolation class %s: %ld cases\n", vc_cls[i].cls, vc_cls[i].n);
    fflush(stdout);
}
static const char *vc_signame(int s) {
    switch (s) { case SIGSEGV: return "SIGSEGV"; case SIGABRT: return "SIGABRT"; case SIGBUS: return "SIGBUS"; case SIGFPE: return "SIGFPE"; case SIGILL: return "SIGILL"; case SIGKILL: return "SIGKILL"; default: return "signal"; }
}
/* worker() runs the whole exploration and returns 0; it must call vc_case() before each case. */
static int vc_main(int argc, char **argv, int (*worker)(int, char **)) {
    setvbuf(stdout, NULL, _IOLBF, 0);
    prctl(PR_SET_PDEATHSIG, SIGKILL);     /* never outlive the driver (a crashed driver must not leave harnesses behind) */
    vc_sh = mmap(NULL, sizeof *vc_sh, PROT_READ | PROT_WRITE, MAP_SHARED | MAP_ANONYMOUS, -1, 0);
    memset(vc_sh, 0, sizeof *vc_sh);
    int nargc = 0;
    for (int i = 0; i < argc; i++) {
        if (!strcmp(argv[i], "--replay") && i + 1 < argc) { vc_replay_key = argv[++i]; continue; }
        argv[nargc++] = argv[i];
    }
    argc = nargc; argv[argc] = NULL;
    const char *dl = getenv("VC_DEADLINE_S");
    if (dl && atof(dl) > 0) vc_deadline = vc_now() + atof(dl);
    const char *ht = getenv("VC_HANG_TICKS");
    if (ht && atoi(ht) > 0) vc_hang_ticks = atoi(ht);
    if (vc_replay_key) vc_hang_ticks *= 10;
    int restarts = 0, crashes = 0;
    for (;;) {
        fflush(stdout);
        pid_t pid = fork();
        if (pid == 0) {
            prctl(PR_SET_PDEATHSIG, SIGKILL);
            vc_wd_start();
            int rc = worker(argc, argv);
            vc_sh->in_case = 0;
            vc_flush_stats();
            printf("DONE\t%d\n", vc_exhaustive && rc == 0);
            fflush(stdout);
            VC_GCOV_DUMP();     /* coverage builds only (tools/coverage.py) */
            _exit(0);
        }
        int st; while (waitpid(pid, &st, 0) < 0 && errno == EINTR) {}
        if (WIFEXITED(st) && WEXITSTATUS(st) == 0) return 0;
        /* abnormal end: attribute it to the published case */
        char cls[200];
        crashes++;
        if (WIFEXITED(st) && WEXITSTATUS(st) == 97 && vc_sh->hang_flag) snprintf(cls, sizeof cls, "hang:%s", vc_sh->label);
        else if (WIFEXITED(st) && WEXITSTATUS(st) == 96 && vc_sh->abort_cls[0]) { snprintf(cls, sizeof cls, "%s", vc_sh->abort_cls); vc_sh->abort_cls[0] = 0; }
        else if (WIFSIGNALED(st)) snprintf(cls, sizeof cls, "crash:%s:%s", vc_signame(WTERMSIG(st)), vc_sh->label);
        else snprintf(cls, sizeof cls, "crash:exit%d:%s", WIFEXITED(st) ? WEXITSTATUS(st) : -1, vc_sh->label);
        if (!vc_sh->in_case) {
            printf("NOTE\tworker died outside any case (%s), last key %s\n", cls, vc_sh->key);
            printf("VIOL\t%s:outside-case\tworker died outside a case\t%s\n", cls, vc_sh->key);
            printf("DONE\t0\n"); fflush(stdout); return 0;
        }
        printf("VIOL\t%s\tprocess died or hung while running this case (asan=%s)\t%s\n", cls,
               vc_sh->asan_count ? vc_sh->asan_desc : "-", vc_sh->key);
        fflush(stdout);
        vc_sh->hang_flag = 0;
        if (vc_replay_key || vc_sh->nskip >= VC_MAXSKIP || ++restarts > 40) { printf("DONE\t0\n"); fflush(stdout); return 0; }
        vc_sh->skip[vc_sh->nskip++] = vc_hash(vc_sh->key, strlen(vc_sh->key));
        vc_sh->in_case = 0;
    }
}
#endif
