"""Build / run / aggregate driver shared by all checks (see DESIGN.md section 1).

Harness line protocol on stdout (tab separated):
  STAT <key> <int>          summed over jobs (keys starting with max_ are maxed)
  SAMPLE <text>             an explored case written out
  OUTCOME <text>            a distinct observed outcome (set union over jobs)
  VIOL <class> <desc> <key> a violation: class key, human description, replay key
  NOTE <text>
  DONE <0|1>                job finished; 1 = its bounded space was enumerated completely
"""
import os, sys, json, time, hashlib, subprocess, glob, fnmatch, shutil
from concurrent.futures import ThreadPoolExecutor

VERIF = os.path.dirname(os.path.dirname(os.path.dirname(os.path.abspath(__file__))))
REPO = os.environ.get("VERIF_REPO", "/repo")
BUILD = os.environ.get("VERIF_BUILD", os.path.join(VERIF, "build"))
ENG = os.path.join(VERIF, "engines")
CC = os.environ.get("VERIF_CC", "gcc")
DEADLINE = 0   # seconds a harness may explore before it winds down (exhaustive:false); set in main()

REPO_CFLAGS = ["-std=gnu99", "-DNDEBUG", "-g", "-O1", "-fno-builtin", "-fno-omit-frame-pointer", "-w",
               "-I%s/src/internal" % REPO, "-I%s/include/qlibc" % REPO, "-I%s/include" % REPO]
HARN_CFLAGS = ["-std=gnu11", "-D_GNU_SOURCE", "-g", "-O1", "-fno-builtin", "-fno-omit-frame-pointer", "-Wall",
               "-Wno-unused-function", "-Wno-unused-variable", "-Wno-unused-but-set-variable",
               "-I%s/src/internal" % REPO, "-I%s/include/qlibc" % REPO, "-I%s/include" % REPO, "-I%s/common" % ENG, "-I%s/seqmc" % ENG]
FLAVOURS = {
    "asan": ["-fsanitize=address,undefined", "-fsanitize-recover=address", "-fno-sanitize-recover=undefined", "-ftrivial-auto-var-init=pattern",
             "-fno-sanitize=alignment,nonnull-attribute", "-DVC_ASAN=1"],
    "tsan": ["-fsanitize=thread", "-DVC_TSAN=1"],
    "plain": [],
    # unoptimised build without sanitizer: the only flavour in which a read of an uninitialised automatic variable
    # returns what is really on the stack (an optimiser may pick any convenient value for it); used with the
    # 0xA5 stack-dirtying of vc.h
    "o0": ["-O0", "-DVC_O0=1"],
}
# repository sources every harness links (http client / database / sockets are outside every property)
LIB_GLOBS = ["src/containers/*.c", "src/utilities/*.c", "src/internal/*.c", "src/internal/md5/*.c", "src/ipc/*.c",
             "src/extensions/qconfig.c", "src/extensions/qaconf.c", "src/extensions/qlog.c",
             "src/extensions/qtokenbucket.c"]


class Job:
    def __init__(self, name, harness, args=(), flavour="asan", wraps=(), nosan=(), cflags=(), libs=(),
                 timeout=3000, weight=1.0, env=None):
        self.name = name
        self.harness = list(harness)      # paths relative to engines/
        self.args = [str(x) for x in args]
        self.flavour = flavour
        self.wraps = list(wraps)          # symbols for -Wl,--wrap=
        self.nosan = list(nosan)          # harness files compiled without sanitizer instrumentation
        self.cflags = list(cflags)
        self.libs = list(libs)
        self.timeout = timeout
        self.weight = weight
        self.env = env or {}

    def to_json(self):
        return {"name": self.name, "harness": self.harness, "args": self.args, "flavour": self.flavour,
                "wraps": self.wraps, "nosan": self.nosan, "cflags": self.cflags, "libs": self.libs,
                "env": self.env}

    @staticmethod
    def from_json(d):
        return Job(d["name"], d["harness"], d["args"], d["flavour"], d["wraps"], d.get("nosan", ()),
                   d.get("cflags", ()), d.get("libs", ()), env=d.get("env"))


# ------------------------------------------------------------------ build
def _sha(*parts):
    h = hashlib.sha256()
    for p in parts:
        h.update(p if isinstance(p, bytes) else str(p).encode())
        h.update(b"\0")
    return h.hexdigest()


_hdr_cache = {}


def _headers_hash(dirs):
    key = tuple(dirs)
    if key not in _hdr_cache:
        h = hashlib.sha256()
        for d in dirs:
            for root, _, files in sorted(os.walk(d)):
                for f in sorted(files):
                    if f.endswith(".h"):
                        p = os.path.join(root, f)
                        h.update(p.encode())
                        h.update(open(p, "rb").read())
        _hdr_cache[key] = h.hexdigest()
    return _hdr_cache[key]


def repo_sources():
    out = []
    for g in LIB_GLOBS:
        out += sorted(glob.glob(os.path.join(REPO, g)))
    return out


def _compile(src, flags, hdrhash):
    key = _sha(CC, " ".join(flags), open(src, "rb").read(), hdrhash, os.path.relpath(src, "/"))
    obj = os.path.join(BUILD, "obj", key[:2], key + ".o")
    if os.path.exists(obj):
        return obj, None
    os.makedirs(os.path.dirname(obj), exist_ok=True)
    tmp = obj + ".%d.tmp" % os.getpid()
    r = subprocess.run([CC] + flags + ["-c", src, "-o", tmp], capture_output=True, text=True)
    if r.returncode != 0:
        return None, "compile failed: %s\n%s" % (src, r.stderr[-4000:])
    os.replace(tmp, obj)
    return obj, None


def build(job, pool):
    """Compile repo sources + harness for this job's flavour; returns (binary, error)."""
    fl = FLAVOURS[job.flavour]
    repo_hdr = _headers_hash([os.path.join(REPO, "include"), os.path.join(REPO, "src")])
    harn_hdr = _sha(repo_hdr, _headers_hash([ENG]))
    tasks = []
    for s in repo_sources():
        tasks.append((s, REPO_CFLAGS + fl + job.cflags, repo_hdr))
    for h in job.harness:
        p = os.path.join(ENG, h)
        f = HARN_CFLAGS + ([] if h in job.nosan else fl) + job.cflags
        tasks.append((p, f, harn_hdr))
    res = list(pool.map(lambda t: _compile(*t), tasks))
    errs = [e for _, e in res if e]
    if errs:
        return None, "\n".join(errs)
    objs = [o for o, _ in res]
    ld = fl + ["-pthread"] + ["-Wl,--wrap=%s" % w for w in job.wraps] + ["-lm"] + job.libs
    key = _sha(CC, " ".join(objs), " ".join(ld))
    exe = os.path.join(BUILD, "bin", key[:16], job.harness[0].replace("/", "_").replace(".c", ""))
    if not os.path.exists(exe):
        os.makedirs(os.path.dirname(exe), exist_ok=True)
        tmp = exe + ".%d.tmp" % os.getpid()
        r = subprocess.run([CC] + objs + ["-o", tmp] + ld, capture_output=True, text=True)
        if r.returncode != 0:
            return None, "link failed: %s" % r.stderr[-4000:]
        os.replace(tmp, exe)
    return exe, None


# ------------------------------------------------------------------ run
def run_env(job):
    e = dict(os.environ)
    e["ASAN_OPTIONS"] = "halt_on_error=0:detect_leaks=0:allocator_may_return_null=1:detect_stack_use_after_return=0:" \
                        "print_summary=1:handle_abort=0:max_malloc_fill_size=4096:malloc_fill_byte=190:" \
                        "quarantine_size_mb=64:symbolize=1"
    e["UBSAN_OPTIONS"] = "halt_on_error=1:print_stacktrace=1"
    e["TSAN_OPTIONS"] = "halt_on_error=0:report_signal_unsafe=0:second_deadlock_stack=0:history_size=2:exitcode=0:atexit_sleep_ms=0"
    e["VC_DEADLINE_S"] = str(DEADLINE)
    e["TMPDIR"] = os.path.join(BUILD, "tmp")
    os.makedirs(e["TMPDIR"], exist_ok=True)
    e.update(job.env)
    return e


import threading
_cpu_lock = threading.Lock()
_free_cpus = None


def _acquire_cpu():
    """a CPU of our own for a job whose threads hand control to each other (E2): keeps every hand-off a same-CPU switch"""
    global _free_cpus
    with _cpu_lock:
        if _free_cpus is None:
            _free_cpus = sorted(os.sched_getaffinity(0))
        return _free_cpus.pop(0) if _free_cpus else None


def _release_cpu(c):
    if c is not None:
        with _cpu_lock:
            _free_cpus.append(c)


def run_job(job, exe, logdir, extra_args=()):
    t0 = time.time()
    cpu = _acquire_cpu() if job.env.get("VC_PIN") else None
    try:
        return _run_job(job, exe, logdir, extra_args, cpu, t0)
    finally:
        _release_cpu(cpu)


def _run_job(job, exe, logdir, extra_args, cpu, t0):
    errp = os.path.join(logdir, job.name + ".err")
    outp = os.path.join(logdir, job.name + ".out")
    with open(errp, "wb") as ef, open(outp, "wb") as of:
        try:
            r = subprocess.run((["taskset", "-c", str(cpu)] if cpu is not None else []) + [exe] + job.args + list(extra_args),
                               stdout=of, stderr=ef, env=run_env(job), timeout=job.timeout, cwd=os.path.join(BUILD, "tmp"))
            rc = r.returncode
        except subprocess.TimeoutExpired:
            rc = -999
    res = {"job": job, "rc": rc, "wall": time.time() - t0, "stats": {}, "samples": [], "outcomes": set(),
           "viols": [], "notes": [], "done": None, "err": errp}
    with open(outp, "r", errors="replace") as f:
        for line in f:
            p = line.rstrip("\n").split("\t")
            if p[0] == "STAT" and len(p) >= 3:
                try:
                    v = int(p[2])
                except ValueError:
                    continue
                if p[1].startswith("max_"):
                    res["stats"][p[1]] = max(res["stats"].get(p[1], 0), v)
                else:
                    res["stats"][p[1]] = res["stats"].get(p[1], 0) + v
            elif p[0] == "SAMPLE" and len(p) >= 2:
                res["samples"].append(p[1])
            elif p[0] == "OUTCOME" and len(p) >= 2:
                res["outcomes"].add(p[1])
            elif p[0] == "VIOL" and len(p) >= 4:
                res["viols"].append((p[1], p[2], p[3]))
            elif p[0] == "NOTE" and len(p) >= 2:
                res["notes"].append(p[1])
            elif p[0] == "DONE" and len(p) >= 2:
                res["done"] = (p[1] == "1")
    return res


# ------------------------------------------------------------------ known findings
def load_known(prop):
    p = os.path.join(VERIF, "known_findings.json")
    if not os.path.exists(p):
        return []
    d = json.load(open(p))
    return [e for e in d.get("entries", []) if e.get("property") == prop and e.get("status") == "finding"]


# ------------------------------------------------------------------ main
def main(prop, tier, replay, njobs):
    import registry
    t0 = time.time()
    seed = int(os.environ.get("VERIF_SEED", "0") or 0)
    if prop not in registry.PROPS:
        print("unknown property %s" % prop)
        return 2
    spec = registry.PROPS[prop]
    os.makedirs(BUILD, exist_ok=True)
    logdir = os.path.join(BUILD, "logs", prop)
    os.makedirs(logdir, exist_ok=True)
    pool = ThreadPoolExecutor(max_workers=max(1, njobs))

    if replay:
        d = json.load(open(replay))
        job = Job.from_json(d["job"])
        exe, err = build(job, pool)
        if err:
            print(err)
            return 2
        res = run_job(job, exe, logdir, ["--replay", d["key"]])
        for v in res["viols"]:
            print("REPRODUCED class=%s %s" % (v[0], v[1]))
        sys.stdout.write(open(res["err"], errors="replace").read()[-6000:])
        print("replay rc=%d violations=%d" % (res["rc"], len(res["viols"])))
        return 1 if res["viols"] else 0

    global DEADLINE
    DEADLINE = float(os.environ.get("VERIF_DEADLINE", "") or (600 if tier == "quick" else 5400))
    jobs = spec["jobs"](tier, seed)
    for j in jobs:
        j.timeout = DEADLINE + 300
        if spec.get("classes"):
            j.env = dict(j.env, VC_CLASSES=",".join(spec["classes"]))   # the search cap counts this property's classes only
    # build (distinct binaries once)
    exes = {}
    for j in jobs:
        k = json.dumps([j.harness, j.flavour, j.wraps, j.nosan, j.cflags, j.libs])
        if k not in exes:
            exe, err = build(j, pool)
            if err:
                print("BUILD-ERROR %s\n%s" % (j.name, err))
                return 2
            exes[k] = exe
        j._exe = exes[k]
    tb = time.time() - t0
    # longest first
    order = sorted(jobs, key=lambda j: -j.weight)
    def _safe(j):
        try:
            return run_job(j, j._exe, logdir)
        except Exception as ex:      # e.g. fork failure under resource exhaustion: an infrastructure error of this job, not a crash of the driver
            return {"job": j, "rc": None, "done": None, "err": "driver could not run the job: %r" % (ex,), "stats": {}, "samples": [], "outcomes": set(), "viols": [], "notes": [], "wall": 0.0}
    results = list(pool.map(_safe, order))

    stats, samples, outcomes, viols, notes = {}, [], set(), [], []
    exhaustive, infra = True, []
    perjob = {}
    for r in results:
        j = r["job"]
        perjob[j.name] = dict(r["stats"], wall_s=round(r["wall"], 2), exhaustive=bool(r["done"]))
        for k, v in r["stats"].items():
            stats[k] = max(stats.get(k, 0), v) if k.startswith("max_") else stats.get(k, 0) + v
        for s in r["samples"][:3]:
            if len(samples) < 12:
                samples.append("%s: %s" % (j.name, s))
        outcomes |= r["outcomes"]
        notes += r["notes"][:8]
        for v in r["viols"]:
            viols.append((v[0], v[1], v[2], j))
        if r["done"] is None:
            infra.append("%s: no DONE line (rc=%s) see %s" % (j.name, r["rc"], r["err"]))
        elif not r["done"]:
            exhaustive = False
    for g in spec.get("guards", []):
        msg = g(stats, outcomes, notes) if getattr(g, "wants_notes", False) else g(stats, outcomes)
        if msg:
            infra.append("vacuity guard: " + msg)

    known = load_known(prop)
    seen = set()
    nviol, nknown = 0, 0
    known_hit = {}
    percls = {}
    pats = spec.get("classes")
    nother = 0
    for cls, desc, key, j in viols:
        if pats and not any(fnmatch.fnmatchcase(cls, p) for p in pats):
            nother += 1   # a class that belongs to another property's oracle on the same search
            continue
        sig = (cls, key)
        if sig in seen:
            continue
        seen.add(sig)
        kf = next((e for e in known if fnmatch.fnmatchcase(cls, e["class"])), None)
        if kf is not None:
            known_hit.setdefault(kf["class"], [kf, 0])[1] += 1
            nknown += 1
            continue
        nviol += 1
        rid = _sha(prop, cls, key)[:12]
        rdir = os.path.join(VERIF, "replays", prop)
        os.makedirs(rdir, exist_ok=True)
        rp = os.path.join(rdir, rid + ".json")
        json.dump({"property": prop, "class": cls, "description": desc, "key": key, "job": j.to_json()},
                  open(rp, "w"), indent=1)
        percls[cls] = percls.get(cls, 0) + 1
        if percls[cls] <= 2 and nviol <= 60:
            print("VIOLATION property=%s replay=%s class=%s :: %s" % (prop, rp, cls, desc))
    for cls, n in sorted(percls.items()):
        if n > 2:
            print("  ... class %s: %d violating cases in total (replays under replays/%s/)" % (cls, n, prop))
    for cls, (kf, n) in known_hit.items():
        print("KNOWN-FINDING: property=%s %s (class %s, %d cases this run)" % (prop, kf.get("what", ""), cls, n))

    level = spec["level"]
    transitions = stats.get("transitions", 0) or stats.get("evaluations", 0)
    cov = {
        "evaluations": transitions if level == "model_checking" else stats.get("evaluations", transitions),
        "distinct_nontrivial": stats.get("nontrivial", stats.get("states", 0)),
        "rule": spec["rule"],
        "samples": samples[:12] or ["(none)"],
        "exhaustive": bool(exhaustive and not infra),
        "distinct_outcomes": len(outcomes) + stats.get("distinct_outcomes", 0),
        "stats": stats,
        "per_job": perjob,
        "known_findings_seen": nknown,
        "violations_of_other_oracles_ignored": nother,
        "build_s": round(tb, 2),
    }
    if level == "model_checking":
        cov["states"] = stats.get("states", 0)
        cov["transitions"] = transitions
        cov["traces_validated_against_impl"] = stats.get("traces_validated", transitions)
    if notes:
        cov["notes"] = notes[:20]
    ev = {"property_id": prop, "tier": tier, "seed": seed, "level": level, "coverage": cov,
          "assumptions": spec.get("assumptions", []), "wall_s": round(time.time() - t0, 2), "violations": nviol}
    os.makedirs(os.path.join(VERIF, "evidence"), exist_ok=True)
    json.dump(ev, open(os.path.join(VERIF, "evidence", prop + ".json"), "w"), indent=1)
    print("%s tier=%s jobs=%d states=%d transitions=%d evaluations=%d outcomes=%d exhaustive=%s violations=%d known=%d "
          "wall=%.1fs (build %.1fs)" % (prop, tier, len(jobs), cov.get("states", stats.get("states", 0)), transitions,
                                      cov["evaluations"], cov["distinct_outcomes"], cov["exhaustive"], nviol, nknown,
                                      time.time() - t0, tb))
    if infra:
        for m in infra:
            print("INFRA-ERROR " + m)
        return 1 if nviol else 2
    return 1 if nviol else 0
