/* refhash.h - independent MurmurHash3 x86_32 (seed 0), byte-wise little-endian loads; used by harnesses to
 * predict slot indices without calling the library's own hash. Anchored by C18's published vectors. */
#ifndef REFHASH_H
#define REFHASH_H
#include <stdint.h>
#include <stddef.h>
static uint32_t rh_rol32(uint32_t x, int r) { return (x << r) | (x >> (32 - r)); }
static uint32_t ref_mm32(const void *data, size_t n) {
    const uint8_t *d = data; uint32_t h = 0; size_t nb = n / 4;
    for (size_t i = 0; i < nb; i++) { uint32_t k = d[4 * i] | d[4 * i + 1] << 8 | d[4 * i + 2] << 16 | (uint32_t)d[4 * i + 3] << 24; k *= 0xcc9e2d51u; k = rh_rol32(k, 15); k *= 0x1b873593u; h ^= k; h = rh_rol32(h, 13); h = h * 5 + 0xe6546b64u; }
    uint32_t k = 0; const uint8_t *t = d + 4 * nb;
    for (int i = (int)(n & 3) - 1; i >= 0; i--) k = (k << 8) | t[i];
    if (n & 3) { k *= 0xcc9e2d51u; k = rh_rol32(k, 15); k *= 0x1b873593u; h ^= k; }
    h ^= (uint32_t)n; h ^= h >> 16; h *= 0x85ebca6bu; h ^= h >> 13; h *= 0xc2b2ae35u; h ^= h >> 16;
    return h;
}
#endif
