/* C20 - configuration parsers deliver exactly what the file says.
 * Generator-as-oracle: documents are generated from a structure whose meaning the generator knows.
 *   c20 ini <maxlines> <shard> <nshards>
 *   c20 inifile <shard> <nshards>
 *   c20 actype <part>            single-directive type / count space
 *   c20 acquote <maxargs> <shard> <nshards>
 *   c20 acstruct <flags> <maxitems> <maxdepth> <shard> <nshards>
 */
#include "vc.h"
#include <fcntl.h>
#include <strings.h>
#include <sys/stat.h>
#include "qlibc.h"
#include "qlibcext.h"

static long n_eval, n_nontrivial, n_skipped;
FILE *__wrap_popen(const char *c, const char *m) { (void)c; (void)m; errno = ENOSYS; return NULL; }

/* =====================================================================  INI  */
enum { COMMENT, BLANK, SEC_S, SEC_T, SEC_NONE, KV_X1, KV_YAB, KV_XAB, REF_X, REF_YZ, REF_SX, REF_SY, REF_ENV, REF_UNDEF, NOSEP, REF_MARK, NKIND };
static const char *KINDNAME[] = {"#", "blank", "[s]", "[t]", "[]", "x=1", "y=a b", "x=a b", "y=<${x}>", "x=${y}z", "x=${s.x}${y}", "y=${s.y}", "x=${%E}/${%NOPE}", "y=${nope}", "x", "y=${t.}|"};
typedef struct { char n[32]; char v[600]; } Ent;
static Ent exp_[64]; static int nexp; static char cursec[8]; static int illformed;
static char doc[4096];
static const char *lookup(const char *name) { for (int i = nexp - 1; i >= 0; i--) if (!strcmp(exp_[i].n, name)) return exp_[i].v; return NULL; }
/* expected value = fixpoint of "replace every reference that is defined"; documents in which a reference
 * resolves to a value containing that same reference are not well-formed (skipped, counted) */
static void expand(char *out, const char *in) {
    char cur[600]; strcpy(cur, in);
    for (int step = 0; step < 40; step++) {
        int did = 0;
        for (char *s = cur; *s; s++) {
            if (s[0] != '$' || s[1] != '{') continue;
            char *e = strchr(s + 2, '}'); if (!e) break;
            char name[64]; int l = e - s - 2; memcpy(name, s + 2, l); name[l] = 0;
            const char *r = NULL; char envb[64];
            if (name[0] == '%') { const char *ev = getenv(name + 1); strcpy(envb, ev ? ev : ""); r = envb; } else r = lookup(name);
            if (!r) { s = e; continue; }
            char pat[80]; sprintf(pat, "${%s}", name);
            if (strstr(r, pat)) { illformed = 1; strcpy(out, ""); return; }
            char nw[4096]; char *o = nw;
            for (char *p = cur; *p;) { if (!strncmp(p, pat, strlen(pat))) { strcpy(o, r); o += strlen(r); p += strlen(pat); } else *o++ = *p++; if (o - nw > 500) { illformed = 1; strcpy(out, ""); return; } }
            *o = 0; strcpy(cur, nw); did = 1; break;
        }
        if (!did) { strcpy(out, cur); return; }
    }
    illformed = 1; strcpy(out, "");
}
static void put(const char *k, const char *v0) {
    char v[600]; expand(v, v0);
    if (cursec[0]) snprintf(exp_[nexp].n, 32, "%s.%s", cursec, k); else strcpy(exp_[nexp].n, k);
    strcpy(exp_[nexp].v, v); nexp++;
}
static void emit(int kind, int layout, char sep) {
    char line[160]; const char *nl = (layout & 1) ? "\r\n" : "\n"; const char *pre = (layout & 2) ? " \t" : ""; const char *mid = (layout & 4) ? " " : "";
    char seps[2] = {sep, 0};
#define KV(k, v) do { sprintf(line, "%s%s%s%s%s%s%s%s", pre, k, mid, seps, mid, v, mid, nl); put(k, v); } while (0)
    switch (kind) {
        case COMMENT: sprintf(line, "%s# x%s9%s", pre, seps, nl); break;
        case BLANK: sprintf(line, "%s%s", pre, nl); break;
        case SEC_S: sprintf(line, "%s[%ss%s]%s", pre, mid, mid, nl); strcpy(cursec, "s"); put("", "s"); break;
        case SEC_T: sprintf(line, "%s[t]%s%s", pre, mid, nl); strcpy(cursec, "t"); put("", "t"); break;
        case SEC_NONE: sprintf(line, "%s[%s]%s", pre, mid, nl); cursec[0] = 0; break;
        case KV_X1: KV("x", "1"); break;
        case KV_YAB: KV("y", "a b"); break;
        case KV_XAB: KV("x", "a b"); break;
        case REF_X: KV("y", "<${x}>"); break;
        case REF_YZ: KV("x", "${y}z"); break;
        case REF_SX: KV("x", "${s.x}${y}"); break;
        case REF_SY: KV("y", "${s.y}"); break;
        case REF_ENV: KV("x", "${%E}/${%NOPE}"); break;
        case REF_UNDEF: KV("y", "${nope}"); break;
        case NOSEP: sprintf(line, "%sx%s", pre, nl); put("x", ""); break;
        case REF_MARK: KV("y", "${t.}|"); break;
    }
    strcat(doc, line);
}
static void ini_compare(qlisttbl_t *t, const char *key) {
    if (!t) { vc_viol("ini:null-table", "%s", key); return; }
    if ((int)t->size(t) != nexp) { vc_viol("ini:entry-count", "%s: %zu entries, expected %d", key, t->size(t), nexp); return; }
    qlisttbl_obj_t *o = t->first; int i = 0;
    for (; o && i < nexp; o = o->next, i++) {
        if (strcmp(o->name, exp_[i].n) || o->size != strlen(exp_[i].v) + 1 || strcmp(o->data, exp_[i].v)) {
            vc_viol("ini:entry", "%s: entry %d is [%s]=[%s], expected [%s]=[%s]", key, i, o->name, (char *)o->data, exp_[i].n, exp_[i].v); return;
        }
    }
}
static void ini_case(const int *kinds, int n, int layout, char sep) {
    char key[160]; char *k = key; k += sprintf(k, "ini:%d:%c:", layout, sep);
    for (int i = 0; i < n; i++) k += sprintf(k, "%s%d", i ? "," : "", kinds[i]);
    doc[0] = 0; nexp = 0; cursec[0] = 0; illformed = 0;
    for (int i = 0; i < n; i++) emit(kinds[i], layout, sep);
    if (illformed) { n_skipped++; return; }
    if (!vc_case("qconfig_parse_str", key)) return;
    n_eval++;
    char *d = strdup(doc);
    qlisttbl_t *t = qconfig_parse_str(NULL, d, sep);
    ini_compare(t, key);
    if (t) t->free(t);
    free(d);
    int refs = 0; for (int i = 0; i < n; i++) refs |= kinds[i] >= REF_X || (kinds[i] >= SEC_S && kinds[i] <= SEC_NONE);
    n_nontrivial += refs;
    if (vc_asan_check()) vc_viol("asan:qconfig_parse_str", "%s", key);
    vc_case_end();
}
static void run_ini(int maxl, long shard, long nshards) {
    char seps[2] = {'=', ':'}; long idx = 0; int kinds[8];
    for (int n = 0; n <= maxl; n++) {
        long tot = 1; for (int i = 0; i < n; i++) tot *= NKIND;
        for (long x = 0; x < tot; x++) {
            if (idx++ % nshards != shard) continue;
            long y = x; for (int i = 0; i < n; i++) { kinds[i] = y % NKIND; y /= NKIND; }
            for (int si = 0; si < 2; si++) for (int layout = 0; layout < 8; layout++) ini_case(kinds, n, layout, seps[si]);
            if ((idx & 0xfff) == 0 && vc_deadline_hit()) return;
        }
    }
    vc_sample("INI lines [%s | %s | %s | %s] x 8 layouts x separators '=' ':'", KINDNAME[SEC_S], KINDNAME[KV_X1], KINDNAME[SEC_NONE], KINDNAME[REF_SX]);
}
/* reference-heavy documents one line longer than the full enumeration: only the section switch and the lines that hold references
 * (forward references reached on several paths need five lines) */
static void run_iniref(int n) {
    const int RK[] = {SEC_S, SEC_NONE, KV_X1, REF_X, REF_YZ, REF_SX, REF_SY, REF_UNDEF}; const int NR = 8; int kinds[8];
    long tot = 1; for (int i = 0; i < n; i++) tot *= NR;
    for (long x = 0; x < tot; x++) {
        long y = x; for (int i = 0; i < n; i++) { kinds[i] = RK[y % NR]; y /= NR; }
        ini_case(kinds, n, 0, '=');
        if ((x & 0xfff) == 0 && vc_deadline_hit()) return;
    }
    vc_sample("INI documents of %d lines over [%s | %s | %s | %s | %s | %s | ...]", n, KINDNAME[SEC_S], KINDNAME[REF_X], KINDNAME[REF_YZ], KINDNAME[REF_SX], KINDNAME[REF_SY], KINDNAME[REF_UNDEF]);
}
/* @INCLUDE through qconfig_parse_file: pre-lines, directive, post-lines; include file = lines */
static char tmpdir[512];
static void inifile_case(const int *pre, int npre, const int *inc, int ninc, const int *post, int npost, int abs_) {
    char key[200]; char *k = key; k += sprintf(k, "inifile:%d:", abs_);
    for (int i = 0; i < npre; i++) k += sprintf(k, "%d,", pre[i]);
    k += sprintf(k, "|"); for (int i = 0; i < ninc; i++) k += sprintf(k, "%d,", inc[i]);
    k += sprintf(k, "|"); for (int i = 0; i < npost; i++) k += sprintf(k, "%d,", post[i]);
    char maindoc[2048], incdoc[1024], incpath[700], mainpath[700];
    snprintf(incpath, sizeof incpath, "%s/inc.conf", tmpdir); snprintf(mainpath, sizeof mainpath, "%s/main.conf", tmpdir);
    nexp = 0; cursec[0] = 0; illformed = 0;
    doc[0] = 0; for (int i = 0; i < npre; i++) emit(pre[i], 0, '='); strcpy(maindoc, doc);
    doc[0] = 0; for (int i = 0; i < ninc; i++) emit(inc[i], 0, '='); strcpy(incdoc, doc);
    doc[0] = 0; for (int i = 0; i < npost; i++) emit(post[i], 0, '=');
    if (illformed || ninc == 0) { n_skipped++; return; }   /* an empty include file cannot be loaded (qfile_load of 0 bytes) */
    char dir[800]; snprintf(dir, sizeof dir, "@INCLUDE %s\n", abs_ ? incpath : "inc.conf");
    strcat(maindoc, dir); strcat(maindoc, doc);
    if (!vc_case("qconfig_parse_file", key)) return;
    n_eval++; n_nontrivial++;
    FILE *f = fopen(incpath, "w"); fputs(incdoc, f); fclose(f);
    f = fopen(mainpath, "w"); fputs(maindoc, f); fclose(f);
    qlisttbl_t *t = qconfig_parse_file(NULL, mainpath, '=');
    ini_compare(t, key);
    if (t) t->free(t);
    if (vc_asan_check()) vc_viol("asan:qconfig_parse_file", "%s", key);
    vc_case_end();
}
static void run_inifile(long shard, long nshards) {
    snprintf(tmpdir, sizeof tmpdir, "%s/c20_%d", getenv("TMPDIR") ? getenv("TMPDIR") : "/tmp", (int)getpid());
    mkdir(tmpdir, 0700);
    long idx = 0; int pre[2], inc[2], post[2];
    for (int npre = 0; npre <= 1; npre++) for (int a = 0; a < (npre ? NKIND : 1); a++)
        for (int npost = 0; npost <= 1; npost++) for (int b = 0; b < (npost ? NKIND : 1); b++) {
            if (idx++ % nshards != shard) continue;
            pre[0] = a; post[0] = b;
            for (int ninc = 1; ninc <= 2; ninc++) for (int c = 0; c < NKIND; c++) for (int d = 0; d < (ninc > 1 ? NKIND : 1); d++) {
                inc[0] = c; inc[1] = d;
                inifile_case(pre, npre, inc, ninc, post, npost, (c + d) & 1);
            }
        }
    char p[800]; snprintf(p, sizeof p, "%s/inc.conf", tmpdir); unlink(p); snprintf(p, sizeof p, "%s/main.conf", tmpdir); unlink(p); rmdir(tmpdir);
    vc_sample("main.conf = [x=1 | @INCLUDE inc.conf | y=<${x}>], inc.conf = [[s] | x=a b]");
}

/* several include directives in one file: include names that are prefixes of each other, the same file twice, and
 * the directive text inside a value (not at the start of a line, so plain text). Every item is one line. */
static const char *INCNAME[] = {"a.conf", "a.conf2", "b", "a"};
static const char *ITEM2[] = {"@INCLUDE a.conf", "@INCLUDE a.conf2", "@INCLUDE b", "@INCLUDE a", "n=see @INCLUDE a.conf", "z=1", "m=@INCLUDE b"};
#define NITEM2 7
static void inimulti_case(const int *it, int n) {
    char key[64], *k = key; k += sprintf(k, "inimulti:"); for (int i = 0; i < n; i++) k += sprintf(k, "%s%d", i ? "," : "", it[i]);
    if (!vc_case("qconfig_parse_file", key)) return;
    n_eval++; n_nontrivial++;
    nexp = 0; cursec[0] = 0; illformed = 0;
    char maindoc[512] = "", path[700];
    for (int i = 0; i < n; i++) {
        strcat(maindoc, ITEM2[it[i]]); strcat(maindoc, "\n");
        if (it[i] < 4) { char kk[16], vv[16]; sprintf(kk, "f%d", it[i]); sprintf(vv, "v%d", it[i]); put(kk, vv); sprintf(kk, "g%d", it[i]); put(kk, "w"); }
        else { char kk[8] = {ITEM2[it[i]][0], 0}; put(kk, ITEM2[it[i]] + 2); }
    }
    for (int f = 0; f < 4; f++) { snprintf(path, sizeof path, "%s/%s", tmpdir, INCNAME[f]); FILE *fp = fopen(path, "w"); fprintf(fp, "f%d=v%d\ng%d=w\n", f, f, f); fclose(fp); }
    snprintf(path, sizeof path, "%s/main.conf", tmpdir); FILE *fp = fopen(path, "w"); fputs(maindoc, fp); fclose(fp);
    qlisttbl_t *t = qconfig_parse_file(NULL, path, '=');
    ini_compare(t, key);
    if (t) t->free(t);
    if (vc_asan_check()) vc_viol("asan:qconfig_parse_file", "%s", key);
    vc_case_end();
}
static void run_inimulti(int maxn) {
    snprintf(tmpdir, sizeof tmpdir, "%s/c20m_%d", getenv("TMPDIR") ? getenv("TMPDIR") : "/tmp", (int)getpid());
    mkdir(tmpdir, 0700);
    int it[8];
    for (int n = 1; n <= maxn; n++) {
        long tot = 1; for (int i = 0; i < n; i++) tot *= NITEM2;
        for (long c = 0; c < tot; c++) { long x = c; for (int i = 0; i < n; i++) { it[i] = x % NITEM2; x /= NITEM2; } inimulti_case(it, n); }
    }
    char p[800]; for (int f = 0; f < 4; f++) { snprintf(p, sizeof p, "%s/%s", tmpdir, INCNAME[f]); unlink(p); } snprintf(p, sizeof p, "%s/main.conf", tmpdir); unlink(p); rmdir(tmpdir);
    vc_sample("main.conf = [@INCLUDE a | n=see @INCLUDE a.conf | @INCLUDE a.conf2] with files a, a.conf, a.conf2, b: every sequence of <= %d such lines", maxn);
}

/* INI: section / key / value lengths across the 1024-byte threshold of the name-formatting buffer */
static void run_inilong(void) {
    int lens[] = {1, 500, 1019, 1020, 1021, 1022, 1023, 1024, 1025, 1026, 2047, 2048, 2049, 3000};
    for (size_t a = 0; a < sizeof lens / sizeof lens[0]; a++) for (size_t b = 0; b < 4; b++) for (int withref = 0; withref < 2; withref++) {
        int sl = lens[a], kl = lens[(a + b) % (sizeof lens / sizeof lens[0])], vl = lens[(a + 2 * b + 1) % (sizeof lens / sizeof lens[0])];
        char key[96]; snprintf(key, sizeof key, "inilong:%d:%d:%d:%d", sl, kl, vl, withref);
        if (!vc_case("qconfig_parse_str", key)) continue;
        n_eval++; n_nontrivial++;
        char *sec = malloc(sl + 1), *k = malloc(kl + 1), *v = malloc(vl + 1);
        memset(sec, 's', sl); sec[sl] = 0; memset(k, 'k', kl); k[kl] = 0; memset(v, 'v', vl); v[vl] = 0;
        size_t dl = sl + kl + 2 * vl + 64; char *d = malloc(dl);
        if (withref) snprintf(d, dl, "r=%s\n[%s]\n%s=<${r}>\n", v, sec, k); else snprintf(d, dl, "[%s]\n%s=%s\n", sec, k, v);
        qlisttbl_t *t = qconfig_parse_str(NULL, d, '=');
        int want = withref ? 3 : 2;
        if (!t || (int)t->size(t) != want) vc_viol("ini:entry-count", "%s: %zu entries, expected %d", key, t ? t->size(t) : 0, want);
        else {
            qlisttbl_obj_t *o = t->last; char *en = malloc(sl + kl + 2); sprintf(en, "%s.%s", sec, k);
            char *ev = malloc(vl + 3); if (withref) sprintf(ev, "<%s>", v); else strcpy(ev, v);
            if (strcmp(o->name, en) || strcmp(o->data, ev) || o->size != strlen(ev) + 1) vc_viol("ini:entry", "%s: last entry has the wrong name or value (name %zu bytes, value %zu bytes)", key, strlen(o->name), o->size);
            o = o->prev; char *mn = malloc(sl + 2); sprintf(mn, "%s.", sec);
            if (strcmp(o->name, mn) || strcmp(o->data, sec)) vc_viol("ini:entry", "%s: section marker entry wrong", key);
            free(en); free(ev); free(mn);
        }
        if (t) t->free(t);
        free(sec); free(k); free(v); free(d);
        if (vc_asan_check()) vc_viol("asan:qconfig_parse_str", "%s", key);
        vc_case_end();
    }
    vc_sample("[<1023..1026 x s>] / <k...>=<v...> : section-prefixed names across the 1024-byte formatting threshold");
}

/* =====================================================================  Apache style  */
static int mfd = -1; static char mpath[64];
static void wr(const char *s) {
    if (mfd < 0) { mfd = memfd_create("c20", 0); snprintf(mpath, sizeof mpath, "/proc/self/fd/%d", mfd); }
    if (ftruncate(mfd, 0) < 0 || pwrite(mfd, s, strlen(s), 0) < 0) abort();
}
static int got_argc; static char got_argv[48][64]; static int ncb;
static QAC_CB(cb1) { (void)userdata; ncb++; got_argc = data->argc; for (int i = 0; i < data->argc && i < 48; i++) snprintf(got_argv[i], 64, "%s", data->argv[i]); return NULL; }

/* ---- (i) type / count space ---- */
static const char *V[] = {"0", "-12", "23", "1.5", "-0.5", "1.", ".5", "-", "1.2.3", "abc",
                          "on", "off", "yes", "no", "true", "false", "1", "0",
                          "On", "Off", "Yes", "No", "True", "False",
                          "ON", "OFF", "YES", "NO", "TRUE", "FALSE", "-0", "00", "", "1e3"};
#define NV ((int)(sizeof V / sizeof V[0]))
static int is_int(const char *s) { if (*s == '-') s++; if (!*s) return 0; for (; *s; s++) if (*s < '0' || *s > '9') return 0; return 1; }
static int is_float(const char *s) {   /* digits with at most one inner dot */
    if (*s == '-') s++; if (!*s) return 0; int dots = 0; const char *b = s;
    for (; *s; s++) { if (*s == '.') { if (s == b || !s[1] || dots++) return 0; } else if (*s < '0' || *s > '9') return 0; }
    return 1;
}
static int boolval(const char *s) {
    if (!strcasecmp(s, "on") || !strcasecmp(s, "yes") || !strcasecmp(s, "true") || !strcmp(s, "1")) return 1;
    if (!strcasecmp(s, "off") || !strcasecmp(s, "no") || !strcasecmp(s, "false") || !strcmp(s, "0")) return 0;
    return -1;
}
enum { T_STR, T_INT, T_FLOAT, T_BOOL };
static uint32_t tbit(int type, int pos /*0..4, 5 = AA*/) { return type == T_INT ? (QAC_A1_INT << pos) : type == T_FLOAT ? (QAC_A1_FLOAT << pos) : type == T_BOOL ? (QAC_A1_BOOL << pos) : 0; }
static int type_ok(int type, const char *v) { return type == T_STR ? 1 : type == T_INT ? is_int(v) : type == T_FLOAT ? is_float(v) : boolval(v) >= 0; }
/* one directive "opt a1 a2 ..." on line `lineno` (preceded by blank/comment lines); numtake 0..5 or 0xFF; eff[j] effective type of arg j */
static void type_case(uint32_t take, int numtake, const int *eff, const char **args, int nargs, int lineno, const char *key) {
    if (!vc_case("qaconf_parse", key)) return;
    n_eval++;
    char d[512]; d[0] = 0;
    for (int i = 1; i < lineno; i++) strcat(d, i & 1 ? "# comment\n" : "\n");
    strcat(d, "opt");
    for (int i = 0; i < nargs; i++) { strcat(d, " "); if (!args[i][0]) strcat(d, "\"\""); else strcat(d, args[i]); }
    strcat(d, "\n");
    wr(d);
    qaconf_t *c = qaconf();
    qaconf_option_t o[] = {{"opt", take, cb1, 0, QAC_SECTION_ALL}, QAC_OPTION_END};
    c->addoptions(c, o); ncb = 0;
    int r = c->parse(c, mpath, 0);
    int acc = (numtake == 0xFF || numtake == nargs);
    for (int j = 0; j < nargs && acc; j++) acc = type_ok(eff[j], args[j]);    /* the AA default applies to every argument, also beyond the five that can be typed individually */
    if (acc) {
        if (r != 1 || ncb != 1) vc_viol("apache:type-reject", "%s: directive [%s] rejected (%d): %s", key, d + 0, r, c->errmsg(c) ? c->errmsg(c) : "");
        else {
            if (got_argc != nargs + 1) vc_viol("apache:argc", "%s: argc %d", key, got_argc);
            else for (int j = 0; j < nargs; j++) {
                const char *want = args[j];
                if (eff[j] == T_BOOL) want = boolval(args[j]) ? "1" : "0";
                if (strcmp(got_argv[j + 1], want)) { vc_viol(eff[j] == T_BOOL ? "apache:bool-normalise" : "apache:argv", "%s: arg %d is '%s' expected '%s'", key, j + 1, got_argv[j + 1], want); break; }
            }
        }
        n_nontrivial++;
    } else {
        if (r != -1) vc_viol("apache:type-accept", "%s: ill-typed directive accepted (returned %d)", key, r);
        else {
            if (ncb != 0) vc_viol("apache:callback-on-reject", "%s", key);
            char pat[32]; snprintf(pat, sizeof pat, ":%d ", lineno);
            const char *e = c->errmsg(c);
            if (!e || !strstr(e, pat) || strncmp(e, mpath, strlen(mpath))) vc_viol("apache:errmsg-line", "%s: error message '%s' does not name %s:%d", key, e ? e : "(null)", mpath, lineno);
        }
    }
    c->free(c);
    if (vc_asan_check()) vc_viol("asan:qaconf_parse", "%s", key);
    vc_case_end();
}
static void run_actype(int part) {
    char key[200]; int eff[48]; const char *args[48];
    if (part == 0) {
        /* single argument: every type (declared per-argument and as the AA default) x every value x line 1..3 */
        for (int t = 0; t < 4; t++) for (int viaaa = 0; viaaa < 2; viaaa++) for (int v = 0; v < NV; v++) for (int ln = 1; ln <= 3; ln++) {
            snprintf(key, sizeof key, "actype:single:%d:%d:%d:%d", t, viaaa, v, ln);
            eff[0] = t; args[0] = V[v];
            type_case(QAC_TAKE1 | tbit(t, viaaa ? 5 : 0), 1, eff, args, 1, ln, key);
        }
        /* argument count: take n x argc m */
        int takes[] = {QAC_TAKENONE, QAC_TAKE1, QAC_TAKE2, QAC_TAKE3, QAC_TAKE4, QAC_TAKE5, QAC_TAKEALL};
        for (int t = 0; t < 7; t++) for (int n = 0; n <= 7; n++) {
            snprintf(key, sizeof key, "actype:count:%d:%d", t, n);
            for (int i = 0; i < n; i++) { args[i] = "x"; eff[i] = T_STR; }
            type_case(takes[t], t == 6 ? 0xFF : t, eff, args, n, 1, key);
        }
        /* many arguments: the argument vector grows at 4, 12, 20, 28, ... entries */
        static char an[48][8];
        for (int n = 0; n <= 40; n++) {
            snprintf(key, sizeof key, "actype:many:%d", n);
            for (int i = 0; i < n; i++) { snprintf(an[i], 8, "a%d", i); args[i] = an[i]; eff[i] = T_STR; }
            type_case(QAC_TAKEALL, 0xFF, eff, args, n, 1 + (n & 1), key);
        }
        vc_sample("opt Off  [TAKE1|A1_BOOL] -> argv[1]=\"0\";  opt 1.  [TAKE1|A1_FLOAT] -> rejected with path:line");
    } else if (part == 1) {
        /* TAKE2 / TAKE3 with per-argument types x vectors over a reduced value set */
        const char *R[] = {"0", "-12", "1.5", "abc", "on", "Off", "1.", "TRUE"}; int NR = 8;
        for (int n = 2; n <= 3; n++) {
            int ntc = 1; for (int i = 0; i < n; i++) ntc *= 4;
            int nvc = 1; for (int i = 0; i < n; i++) nvc *= NR;
            for (int tc = 0; tc < ntc; tc++) for (int aa = 0; aa < 4; aa++) {
                uint32_t take = n | tbit(aa, 5); int y = tc, usable = 1;
                for (int j = 0; j < n; j++) { int tj = y % 4; y /= 4; if (tj == T_STR) eff[j] = aa; else { eff[j] = tj; take |= tbit(tj, j); } }
                (void)usable;
                for (int vc = 0; vc < nvc; vc++) {
                    int z = vc; for (int j = 0; j < n; j++) { args[j] = R[z % NR]; z /= NR; }
                    snprintf(key, sizeof key, "actype:multi:%d:%d:%d:%d", n, tc, aa, vc);
                    type_case(take, n, eff, args, n, 1, key);
                }
            }
        }
        vc_sample("opt 0 abc TRUE [TAKE3|A1_INT|A3_BOOL|AA_FLOAT] -> rejected (2nd argument must be float)");
    } else {
        /* TAKEALL with AA default and A1/A2 overrides, argc 0..6 (only the first five are type-checked) */
        const char *R[] = {"1", "1.5", "abc", "off"}; int NR = 4;
        for (int aa = 0; aa < 4; aa++) for (int t1 = 0; t1 < 4; t1++) for (int t2 = 0; t2 < 4; t2++) for (int n = 0; n <= 7; n++) {
            int nvc = 1; for (int i = 0; i < n; i++) nvc *= NR;
            uint32_t take = QAC_TAKEALL | tbit(aa, 5) | tbit(t1, 0) | tbit(t2, 1);
            for (int j = 0; j < 8; j++) eff[j] = aa;
            if (t1 != T_STR) eff[0] = t1;
            if (t2 != T_STR) eff[1] = t2;
            for (int vc = 0; vc < nvc; vc++) {
                int z = vc; for (int j = 0; j < n; j++) { args[j] = R[z % NR]; z /= NR; }
                snprintf(key, sizeof key, "actype:all:%d:%d:%d:%d:%d", aa, t1, t2, n, vc);
                type_case(take, 0xFF, eff, args, n, 1, key);
            }
        }
        vc_sample("opt 1 1.5 off abc abc abc [TAKEALL|AA_BOOL|A1_INT|A2_FLOAT]");
        /* every individually typed position A1..A5 against every AA default: the value at that position and the one at the
         * next position (the first one that only the default covers is the 6th) run over all kinds, the rest fit the default */
        const char *R8[] = {"0", "-12", "1.5", "abc", "on", "Off", "1.", "TRUE"}; const char *FIT[4] = {"abc", "7", "2.5", "yes"};
        for (int pos = 0; pos < 5; pos++) for (int t = 1; t < 4; t++) for (int aa = 0; aa < 4; aa++) for (int n = pos + 1; n <= 7; n++) for (int v1 = 0; v1 < 8; v1++) for (int v2 = 0; v2 < (pos + 1 < n ? 8 : 1); v2++) {
            uint32_t take = QAC_TAKEALL | tbit(aa, 5) | tbit(t, pos);
            for (int j = 0; j < 8; j++) { eff[j] = aa; args[j] = FIT[aa]; }
            eff[pos] = t; args[pos] = R8[v1]; if (pos + 1 < n) args[pos + 1] = R8[v2];
            snprintf(key, sizeof key, "actype:pos:%d:%d:%d:%d:%d:%d", pos, t, aa, n, v1, v2);
            type_case(take, 0xFF, eff, args, n, 1, key);
        }
    }
}

/* ---- (ii) quoting space ---- */
static void render(char *out, const char *arg, int style) {   /* 0 bare 1 single 2 double */
    char *o = out; if (style == 0) { strcpy(out, arg); return; }
    char q = style == 1 ? '\'' : '"'; *o++ = q;
    for (const char *p = arg; *p; p++) { if (*p == q || *p == '\\') *o++ = '\\'; *o++ = *p; }
    *o++ = q; *o = 0;
}
static int bare_ok(const char *a) { if (!*a) return 0; if (a[0] == '\'' || a[0] == '"') return 0; for (const char *p = a; *p; p++) if (*p == ' ' || *p == '\t') return 0; return 1; }
static void run_acquote(int maxargs, long shard, long nshards) {
    const char *A[] = {"a", "a b", "it's", "say \"x\"", "back\\slash", "", "\\", "x\\", "'", "tab\there", "<b>", "#c"}; int NA = 12;
    const char *SEP[] = {" ", "\t", "  ", " \t "}; long idx = 0;
    for (int n = 0; n <= maxargs; n++) {
        long tot = 1; for (int i = 0; i < n; i++) tot *= NA * 3;
        for (long x = 0; x < tot; x++) {
            if (idx++ % nshards != shard) continue;
            long y = x; int ai[4], st[4], ok = 1;
            for (int i = 0; i < n; i++) { ai[i] = y % NA; y /= NA; st[i] = y % 3; y /= 3; if (st[i] == 0 && !bare_ok(A[ai[i]])) ok = 0; }
            if (!ok) continue;
            /* a directive line must not end in '>' after '<' ... only option lines here; a bare last arg ending the line is fine */
            for (int sp = 0; sp < 4; sp++) for (int tail = 0; tail < 2; tail++) {
                char d[512] = "opt"; char key[160]; char *k = key; k += sprintf(k, "acquote:%d:%d:%d", sp, tail, n);
                for (int i = 0; i < n; i++) { char r[64]; render(r, A[ai[i]], st[i]); strcat(d, SEP[sp]); strcat(d, r); k += sprintf(k, ":%d.%d", ai[i], st[i]); }
                strcat(d, tail ? " \t\r\n" : "\n");
                if (!vc_case("qaconf_parse", key)) continue;
                n_eval++; n_nontrivial += n > 0;
                wr(d);
                qaconf_t *c = qaconf();
                qaconf_option_t o[] = {{"opt", QAC_TAKEALL, cb1, 0, QAC_SECTION_ALL}, QAC_OPTION_END};
                c->addoptions(c, o); ncb = 0;
                int r = c->parse(c, mpath, 0);
                if (r != 1 || ncb != 1) vc_viol("apache:quote-reject", "%s: [%s] returned %d (%s)", key, d, r, c->errmsg(c) ? c->errmsg(c) : "");
                else if (got_argc != n + 1) vc_viol("apache:quote-argc", "%s: [%s] argc %d expected %d", key, d, got_argc, n + 1);
                else for (int i = 0; i < n; i++) if (strcmp(got_argv[i + 1], A[ai[i]])) { vc_viol("apache:quote-argv", "%s: [%s] arg %d is '%s' expected '%s'", key, d, i + 1, got_argv[i + 1], A[ai[i]]); break; }
                c->free(c);
                if (vc_asan_check()) vc_viol("asan:qaconf_parse", "%s", key);
                vc_case_end();
            }
        }
    }
    vc_sample("opt 'it\\'s' \"say \\\"x\\\"\" back\\slash  -> argv = [it's][say \"x\"][back\\slash]");
}


/* ---- (iv) object-level behaviour: callback errors, default handler, user data, re-use, missing file ---- */
static int ud_seen; static char def_log[512];
static QAC_CB(cb_err) { if (userdata == &ud_seen) ud_seen++; if (data->otype == QAC_OTYPE_OPTION && data->argc > 1 && !strcmp(data->argv[1], "bad")) return strdup("value refused by callback"); return NULL; }
static QAC_CB(cb_def) { (void)userdata; size_t l = strlen(def_log); snprintf(def_log + l, sizeof def_log - l, "%d:%s/%d;", data->otype, data->argv[0], data->argc); return NULL; }
static void run_acobject(void) {
    const char *docs[] = {"x ok\nx bad\nx never\n", "\n# c\n<Dir a>\nx bad\n</Dir>\n", "x ok\nu 1 2\n<V q>\nw\n</V>\nx fine\n"};
    for (int di = 0; di < 3; di++) for (int reuse = 0; reuse < 2; reuse++) {
        char key[64]; snprintf(key, sizeof key, "acobject:%d:%d", di, reuse);
        if (!vc_case("qaconf_parse", key)) continue;
        n_eval++; n_nontrivial++;
        qaconf_t *c = qaconf();
        qaconf_option_t o[] = {{"x", QAC_TAKE1, cb_err, 0, QAC_SECTION_ALL}, {"Dir", QAC_TAKE1, cb_err, 2, QAC_SECTION_ROOT}, QAC_OPTION_END};
        c->addoptions(c, o); c->setuserdata(c, &ud_seen); ud_seen = 0; def_log[0] = 0;
        if (di == 2) c->setdefhandler(c, cb_def);
        if (reuse) {   /* a first parse of a missing file must fail with a message and leave the object usable */
            int r0 = c->parse(c, "/nonexistent/dir/none.conf", 0);
            if (r0 != -1 || !c->errmsg(c) || !strstr(c->errmsg(c), "/nonexistent/dir/none.conf")) vc_viol("apache:missing-file", "%s: parse of a missing file returned %d, message '%s'", key, r0, c->errmsg(c) ? c->errmsg(c) : "(null)");
            c->reseterror(c);
            if (c->errmsg(c) != NULL) vc_viol("apache:reseterror", "%s: error message survives reseterror()", key);
        }
        wr(docs[di]);
        int r = c->parse(c, mpath, 0);
        const char *e = c->errmsg(c);
        if (di == 0) { if (r != -1 || !e || !strstr(e, ":2 value refused by callback") || ud_seen != 2) vc_viol("apache:callback-error", "%s: returned %d, message '%s', callbacks %d (expected -1, line 2, 2 callbacks)", key, r, e ? e : "(null)", ud_seen); }
        else if (di == 1) { if (r != -1 || !e || !strstr(e, ":4 value refused by callback") || ud_seen != 2) vc_viol("apache:callback-error", "%s: returned %d, message '%s', callbacks %d (expected -1, line 4, 2 callbacks)", key, r, e ? e : "(null)", ud_seen); }
        else { if (r != 6 || e || strcmp(def_log, "0:u/3;1:V/2;0:w/1;2:V/1;") || ud_seen != 2) vc_viol("apache:default-handler", "%s: returned %d, message '%s', default handler saw [%s], registered callbacks %d", key, r, e ? e : "-", def_log, ud_seen); }
        c->free(c);
        if (vc_asan_check()) vc_viol("asan:qaconf_parse", "%s", key);
        vc_case_end();
    }
    /* the same object parses the same path again after the file changed (a reload): line numbers start at 1 again, counts are per parse */
    if (vc_case("qaconf_parse", "acobject:reload")) {
        n_eval++; n_nontrivial++;
        qaconf_t *c = qaconf();
        qaconf_option_t o[] = {{"x", QAC_TAKE1, cb_err, 0, QAC_SECTION_ALL}, QAC_OPTION_END};
        c->addoptions(c, o); c->setuserdata(c, &ud_seen); ud_seen = 0;
        wr("x ok\n\n# c\nx ok\nx ok\nx ok\n");
        int r1 = c->parse(c, mpath, 0);
        if (r1 != 4 || c->errmsg(c)) vc_viol("apache:count", "acobject:reload: first parse returned %d, message '%s'", r1, c->errmsg(c) ? c->errmsg(c) : "-");
        wr("x ok\nx ok\n");
        int r2 = c->parse(c, mpath, 0);
        if (r2 != 2 || c->errmsg(c)) vc_viol("apache:count", "acobject:reload: second parse of the same path returned %d (2 directives), message '%s'", r2, c->errmsg(c) ? c->errmsg(c) : "-");
        wr("x ok\nx ok\nx bad\n");
        int r3 = c->parse(c, mpath, 0); const char *e = c->errmsg(c);
        if (r3 != -1 || !e || !strstr(e, ":3 value refused by callback")) vc_viol("apache:errmsg-line", "acobject:reload: third parse of the same path returned %d, message '%s' (expected -1 naming line 3)", r3, e ? e : "(null)");
        c->reseterror(c);
        wr("x ok\n");
        int r4 = c->parse(c, mpath, 0);
        if (r4 != 1 || c->errmsg(c)) vc_viol("apache:count", "acobject:reload: parse after a reset error returned %d", r4);
        c->free(c);
        if (vc_asan_check()) vc_viol("asan:qaconf_parse", "acobject:reload");
        vc_case_end();
    }
    vc_sample("callback returns an error string on line 2 -> -1 with 'path:2 <message>'; default handler receives unregistered directives; parse after a failed parse; reload of the same path");
}

/* ---- (iii) structure space ---- */
static char got[8192], want[8192];
static QAC_CB(cbs) {
    (void)userdata; char *o = got + strlen(got);
    if (o - got > 7000) return NULL;
    o += sprintf(o, "%d:%s", data->otype, data->argv[0]);
    for (int i = 1; i < data->argc; i++) o += sprintf(o, ",%s", data->argv[i]);
    o += sprintf(o, " L%d S%llu SS%llu P", data->level, (unsigned long long)data->section, (unsigned long long)data->sections);
    for (qaconf_cbdata_t *p = data->parent; p; p = p->parent) o += sprintf(o, "/%s(%s)", p->argv[0], p->argc > 1 ? p->argv[1] : "");
    strcpy(o, "\n"); return NULL;
}
/* item kinds: 0 x(ALL) 1 r(ROOT) 2 d(D only) 3 h(D|H) 4 <D>(ROOT) 5 <H>(in D) 6 u (unregistered) 7 X (wrong case of x) */
static const char *NAME[] = {"x", "r", "d", "h", "Dir", "Host", "u", "X", "DIR"};
#define HOSTID (1ULL << 40)     /* section ids are 64-bit masks: one of them uses a bit above 31 */
static unsigned long long ALLOW[] = {0, 1, 2, 2 | HOSTID, 1, 2, 0, 0, 1}; static unsigned long long SID[] = {0, 0, 0, 0, 2, HOSTID, 0, 0, 2};
static int choice[64], nchoice, pos, radix[64];
static int pick(int n) { int p = pos; if (pos >= nchoice) choice[nchoice++] = 0; pos++; radix[p] = n; return choice[p]; }
static int failed, count, count_alt, lineno, sflags, s_maxitems, uses_special;
static void block(int level, unsigned long long cursec_, unsigned long long ss, const char *parents, int maxdepth) {
    int nitems = pick(s_maxitems + 1);
    for (int i = 0; i < nitems && !failed; i++) {
        int k = pick(maxdepth > 0 ? ((sflags == QAC_CASEINSENSITIVE || sflags == QAC_IGNOREUNKNOWN) ? 9 : 8) : 6); if (maxdepth <= 0 && k >= 4) k += 2;   /* leaf level: no section kinds; kind 8 = <DIR ..>, the Dir section in another case */
        if (k == 8 && sflags == QAC_IGNOREUNKNOWN) k = 9;      /* kind 9 = <V ..>, a section nobody registered: ignored, its content belongs to no registered section */
        char line[64]; lineno++;
        if (k < 4 || k == 6 || k == 7) {
            sprintf(line, "%s v%d\n", NAME[k], lineno); strcat(doc, line);
            int known = 1; const char *cbname = NAME[k];
            if (k == 6) { known = 0; uses_special = 1; }
            if (k == 7) { uses_special = 1; if (!(sflags & QAC_CASEINSENSITIVE)) known = 0; }
            if (!known) {
                if (!(sflags & QAC_IGNOREUNKNOWN)) { failed = lineno; return; }
                count_alt++;   /* an ignored directive: counted by the code; either count is accepted */
                continue;
            }
            int kk = k == 7 ? 0 : k;
            if (ALLOW[kk] != 0 && (ALLOW[kk] & cursec_) == 0) { failed = lineno; return; }
            char *w = want + strlen(want); sprintf(w, "0:%s,v%d L%d S%llu SS%llu P%s\n", cbname, lineno, level, cursec_, ss, parents); count++;
        } else if (k == 9) {
            sprintf(line, "<V n%d>\n", lineno); strcat(doc, line); uses_special = 1; count_alt++;
            int myline = lineno; char np[256]; sprintf(np, "/V(n%d)%s", myline, parents);
            block(level + 1, 0, ss, np, maxdepth - 1);
            if (failed) return;
            lineno++; strcat(doc, "</V>\n"); count_alt++;
        } else {
            /* blanks in front of the closing bracket are layout, not arguments (varied with the line number) */
            sprintf(line, lineno % 3 == 0 ? "<%s n%d>\n" : lineno % 3 == 1 ? "<%s n%d >\n" : "<%s  n%d  >\n", NAME[k], lineno); strcat(doc, line);
            if ((ALLOW[k] & cursec_) == 0) { failed = lineno; return; }
            int myline = lineno; char *w = want + strlen(want);
            sprintf(w, "1:%s,n%d L%d S%llu SS%llu P%s\n", NAME[k], myline, level, cursec_, ss, parents); count++;
            char np[256]; sprintf(np, "/%s(n%d)%s", NAME[k], myline, parents);
            block(level + 1, SID[k], ss | SID[k], np, maxdepth - 1);
            if (failed) return;
            int cl = pick(3); lineno++;
            /* a matching close tag is spelled in another case when the section was opened on an even line: the same
             * section iff names are case-insensitive (this varies the spelling without multiplying the documents) */
            if (cl == 0 && (myline & 1) == 0) {
                char up[16]; int q = 0; for (const char *c = NAME[k]; *c; c++) up[q++] = (*c >= 'a' && *c <= 'z') ? *c - 32 : *c; up[q] = 0;
                sprintf(line, "</%s>\n", up); strcat(doc, line); uses_special = 1;
                if (!(sflags & QAC_CASEINSENSITIVE)) { failed = lineno; return; }
                w = want + strlen(want); sprintf(w, "2:%s,n%d L%d S%llu SS%llu P%s\n", NAME[k], myline, level, cursec_, ss, parents); count++;
            } else
            if (cl == 0) { sprintf(line, "</%s>\n", NAME[k]); strcat(doc, line); w = want + strlen(want); sprintf(w, "2:%s,n%d L%d S%llu SS%llu P%s\n", NAME[k], myline, level, cursec_, ss, parents); count++; }
            else if (cl == 1) { sprintf(line, "</Q>\n"); strcat(doc, line); failed = lineno; return; }
            else { lineno--; failed = -1; return; }   /* never closed: rejected at end of file */
        }
    }
}
static void run_acstruct(int flags, int maxitems, int maxdepth, long shard, long nshards) {
    sflags = flags; s_maxitems = maxitems; nchoice = 0; long docidx = 0;
    for (;;) {
        pos = 0; doc[0] = 0; want[0] = 0; got[0] = 0; lineno = 0; failed = 0; count = 0; count_alt = 0; uses_special = 0;
        block(0, 1, 1, "", maxdepth);
        /* shard by the first choices so that a foreign subtree is skipped as a whole */
        int plen = pos < 7 ? pos : 7; uint64_t ph = 0x9e3779b97f4a7c15ULL;
        for (int i = 0; i < plen; i++) { ph ^= (uint64_t)(choice[i] + 1); ph *= 0xff51afd7ed558ccdULL; ph ^= ph >> 29; }
        if (nshards > 1 && pos > 7 && ph % nshards != (unsigned long)shard) {
            int i = 6;
            while (i >= 0 && choice[i] + 1 >= radix[i]) i--;
            if (i < 0) break;
            choice[i]++; nchoice = i + 1;
            continue;
        }
        if (nshards > 1 && pos <= 7 && ph % nshards != (unsigned long)shard) goto advance;
        (void)docidx;
        char key[300]; char *k = key; k += sprintf(k, "acstruct:%d:%d:%d:", flags, maxitems, maxdepth);
        for (int i = 0; i < pos && k - key < 280; i++) k += sprintf(k, "%d", choice[i]);
        if (getenv("C20_COUNT")) { n_eval++; goto advance; }
        if (vc_case("qaconf_parse", key)) {
            n_eval++; n_nontrivial += strchr(doc, '<') != NULL;
            wr(doc);
            qaconf_t *c = qaconf();
            qaconf_option_t o[] = {{"x", QAC_TAKE1, cbs, 0, QAC_SECTION_ALL}, {"r", QAC_TAKE1, cbs, 0, QAC_SECTION_ROOT}, {"d", QAC_TAKE1, cbs, 0, 2}, {"h", QAC_TAKE1, cbs, 0, 2 | HOSTID},
                                   {"Dir", QAC_TAKE1, cbs, 2, QAC_SECTION_ROOT}, {"Host", QAC_TAKE1, cbs, HOSTID, 2}, QAC_OPTION_END};
            c->addoptions(c, o);
            int r = c->parse(c, mpath, flags);
            /* with CASEINSENSITIVE the callback sees the name as written in the file */
            if (!failed) {
                if (r != count + count_alt && r != count) vc_viol("apache:count", "%s: returned %d, %d directives processed", key, r, count);
                if (strcmp(got, want)) vc_viol("apache:callback-stream", "%s: doc [%s] callbacks [%s] expected [%s]", key, doc, got, want);
            } else {
                if (r != -1) vc_viol("apache:accepts-invalid", "%s: doc [%s] returned %d, expected rejection at line %d", key, doc, r, failed);
                else {
                    const char *e = c->errmsg(c); char pat[32];
                    if (failed > 0) { sprintf(pat, ":%d ", failed); if (!e || !strstr(e, pat)) vc_viol("apache:errmsg-line", "%s: doc [%s] error '%s' expected line %d", key, doc, e ? e : "(null)", failed); }
                    else if (!e) vc_viol("apache:errmsg-line", "%s: no error message", key);
                    if (strncmp(got, want, strlen(want)) || strlen(got) != strlen(want)) vc_viol("apache:callbacks-before-error", "%s: doc [%s] callbacks [%s] expected [%s]", key, doc, got, want);
                }
            }
            c->free(c);
            if (vc_asan_check()) vc_viol("asan:qaconf_parse", "%s", key);
            vc_case_end();
        }
        /* advance the odometer over the choices actually consumed */
advance:;
        int i = pos - 1;
        while (i >= 0 && choice[i] + 1 >= radix[i]) i--;
        if (i < 0) break;
        choice[i]++; nchoice = i + 1;
        if ((n_eval & 0x3fff) == 0 && vc_deadline_hit()) break;
    }
    vc_sample("<Dir n1> / d v2 / <Host n3> / h v4 / </Host> / </Dir> / r v7  -> callback stream with levels, sections, parent chains; count 7");
}

/* ---- (iv) nesting depth: d sections inside each other, one directive in the innermost, for every d ----
 * level is documented as "number of parents, root level is 0" and is an 8-bit field: up to 255 parents it must be exact;
 * a document nested more deeply can only be refused (-1, message naming the line that opens the section which does
 * not fit) - never delivered with a wrapped level, and never a crash of the recursive parser */
static int deep_bad, deep_ncb, deep_maxlevel; static char deep_msg[200];
static QAC_CB(cb_deep) {
    (void)userdata; deep_ncb++;
    int parents = 0; for (qaconf_cbdata_t *p = data->parent; p; p = p->parent) parents++;
    if ((int)data->level != parents && !deep_bad++) snprintf(deep_msg, sizeof deep_msg, "callback %d (%s): level %d but %d parents", deep_ncb, data->argv[0], (int)data->level, parents);
    if (parents > deep_maxlevel) deep_maxlevel = parents;
    return NULL;
}
/* mode 0: the section S is registered; 1: nobody registered it and QAC_IGNOREUNKNOWN is set (no callbacks for it); 2: nobody
 * registered it and a default handler receives it. Every open section is a recursion and a level whoever owns its name */
static void deep_case_mode(int d, int mode) {
    char key[64]; snprintf(key, sizeof key, mode ? "acdeep%d:%d" : "acdeep:%d", mode ? mode : d, d);
    if (!vc_case("qaconf_parse", key)) return;
    n_eval++; n_nontrivial++;
    char *docb = malloc((size_t)d * 40 + 64), *o = docb;
    for (int i = 0; i < d; i++) o += sprintf(o, "<S n%d>\n", i);
    o += sprintf(o, "x v\n");
    for (int i = 0; i < d; i++) o += sprintf(o, "</S>\n");
    wr(docb); free(docb);
    qaconf_t *c = qaconf();
    qaconf_option_t opt[] = {{"S", QAC_TAKE1, cb_deep, 0, QAC_SECTION_ALL}, {"x", QAC_TAKE1, cb_deep, 0, QAC_SECTION_ALL}, QAC_OPTION_END};
    c->addoptions(c, mode ? opt + 1 : opt); deep_bad = deep_ncb = deep_maxlevel = 0; deep_msg[0] = 0;
    if (mode == 2) c->setdefhandler(c, cb_deep);
    int all = mode == 1 ? 1 : 2 * d + 1;        /* callbacks expected for an accepted file */
    int r = c->parse(c, mpath, mode == 1 ? QAC_IGNOREUNKNOWN : 0); const char *e = c->errmsg(c);
    if (deep_bad) vc_viol("apache:level", "%s: %s (%d callbacks with a wrong level)", key, deep_msg, deep_bad);
    if (d <= 255) {
        if ((r != 2 * d + 1 && !(mode && r == 1)) || e) vc_viol("apache:count", "%s: returned %d, message '%s'; expected %d directives", key, r, e ? e : "-", 2 * d + 1);
        else if (deep_ncb != all || deep_maxlevel != d) vc_viol("apache:callbacks", "%s: %d callbacks, deepest has %d parents; expected %d and %d", key, deep_ncb, deep_maxlevel, all, d);
    } else if (r != -1) {
        if (deep_ncb != all || deep_maxlevel != d) vc_viol("apache:count", "%s: returned %d after %d callbacks (deepest with %d parents): more than 255 levels can only be refused", key, r, deep_ncb, deep_maxlevel);
    } else {   /* refused: the message names the line of the section that does not fit, everything before it was delivered */
        char want_[32]; snprintf(want_, sizeof want_, ":%d ", 256);
        if (!e || !strstr(e, want_)) vc_viol("apache:errmsg-line", "%s: refused with message '%s', expected it to name line 256", key, e ? e : "(null)");
        if (mode != 1 && (deep_ncb < 255 || deep_ncb > 256)) vc_viol("apache:callbacks-before-error", "%s: %d callbacks before the refusal", key, deep_ncb);
    }
    c->free(c);
    if (vc_asan_check()) vc_viol("asan:qaconf_parse", "%s", key);
    vc_case_end();
}
static void deep_case(int d) { deep_case_mode(d, 0); }
static void run_acdeep(int dense, int thorough) {
    for (int d = 1; d <= dense; d++) { deep_case(d); if (vc_deadline_hit()) return; }
    static const int far_[] = {400, 512, 513, 1000, 1500, 1800, 2000, 2500, 3000, 5000, 10000, 20000};
    for (int i = 0; i < (int)(sizeof far_ / sizeof far_[0]); i++) if (far_[i] > dense && (thorough || far_[i] <= 5000)) deep_case(far_[i]);
    for (int mode = 1; mode <= 2; mode++) {    /* sections that nobody registered */
        for (int d = 250; d <= 260; d++) deep_case_mode(d, mode);
        const int more[] = {1, 2, 100, 400, 1000, 2000, 3000, 5000}; for (int i = 0; i < 8; i++) deep_case_mode(more[i], mode);
    }
    vc_sample("<S n0> ... <S n%d> / x v / </S> ... : level == number of parents in every callback, count 2d+1; beyond 255 parents only a refusal naming line 256", dense - 1);
}

static int replay(const char *key) {
    if (!strncmp(key, "ini:", 4)) {
        int layout; char sep; int off; sscanf(key + 4, "%d:%c:%n", &layout, &sep, &off);
        int kinds[16], n = 0; const char *p = key + 4 + off;
        while (*p) { kinds[n++] = atoi(p); p = strchr(p, ','); if (!p) break; p++; }
        ini_case(kinds, n, layout, sep);
        printf("NOTE\tdocument:\n%s\n", doc);
    } else if (!strncmp(key, "inilong:", 8)) run_inilong();
    else if (!strncmp(key, "inifile:", 8)) run_inifile(0, 1);
    else if (!strncmp(key, "inimulti:", 9)) run_inimulti(4);
    else if (!strncmp(key, "actype:single", 13) || !strncmp(key, "actype:count", 12)) run_actype(0);
    else if (!strncmp(key, "actype:multi", 12)) run_actype(1);
    else if (!strncmp(key, "actype:all", 10) || !strncmp(key, "actype:pos", 10)) run_actype(2);
    else if (!strncmp(key, "acquote:", 8)) run_acquote(3, 0, 1);
    else if (!strncmp(key, "acobject:", 9)) run_acobject();
    else if (!strncmp(key, "acdeep:", 7)) deep_case(atoi(key + 7));
    else if (!strncmp(key, "acdeep1:", 8)) deep_case_mode(atoi(key + 8), 1);
    else if (!strncmp(key, "acdeep2:", 8)) deep_case_mode(atoi(key + 8), 2);
    else if (!strncmp(key, "acstruct:", 9)) { int f, mi, md; sscanf(key + 9, "%d:%d:%d", &f, &mi, &md); run_acstruct(f, mi, md, 0, 1); }
    return 0;
}
static int worker(int argc, char **argv) {
    setenv("E", "env", 1); unsetenv("NOPE");
    if (vc_replay_key) { vc_viol_print_per_class = 1; return replay(vc_replay_key); }
    const char *m = argv[1];
    if (!strcmp(m, "ini")) run_ini(atoi(argv[2]), atol(argv[3]), atol(argv[4]));
    else if (!strcmp(m, "inifile")) run_inifile(atol(argv[2]), atol(argv[3]));
    else if (!strcmp(m, "inilong")) run_inilong();
    else if (!strcmp(m, "iniref")) run_iniref(atoi(argv[2]));
    else if (!strcmp(m, "inimulti")) run_inimulti(atoi(argv[2]));
    else if (!strcmp(m, "actype")) run_actype(atoi(argv[2]));
    else if (!strcmp(m, "acquote")) run_acquote(atoi(argv[2]), atol(argv[3]), atol(argv[4]));
    else if (!strcmp(m, "acobject")) run_acobject();
    else if (!strcmp(m, "acdeep")) run_acdeep(atoi(argv[2]), atoi(argv[3]));
    else if (!strcmp(m, "acstruct")) run_acstruct(atoi(argv[2]), atoi(argv[3]), atoi(argv[4]), atol(argv[5]), atol(argv[6]));
    else return 1;
    vc_stat_add("evaluations", n_eval);
    vc_stat_add("nontrivial", n_nontrivial);
    vc_stat_add("skipped_not_wellformed", n_skipped);
    return 0;
}
int main(int argc, char **argv) { return vc_main(argc, argv, worker); }
