/* C18 - hash functions equal their published algorithms, are pure, and read nothing outside the buffer.
 *   c18 small <len> <lo> <hi>      every string of length len (1..3) over 0..255, first byte in [lo,hi)
 *   c18 grid <shard> <nshards>     lengths x alignments x content classes, purity w.r.t. address / trailing bytes
 *   c18 file                       qhashmd5_file over sizes x (offset, nbytes)
 * References are written from the specifications in a different style (byte-wise LE loads, MD5 constants
 * from sin(), FNV by multiplication) and anchored on published vectors at start-up.
 */
#include "vc.h"
#include <math.h>
#include <fcntl.h>
#include <sys/stat.h>
#include "qlibc.h"

static uint32_t rol32(uint32_t x, int r) { return (x << r) | (x >> (32 - r)); }
static uint64_t rol64(uint64_t x, int r) { return (x << r) | (x >> (64 - r)); }
static uint32_t le32(const uint8_t *p) { return p[0] | p[1] << 8 | p[2] << 16 | (uint32_t)p[3] << 24; }
static uint64_t le64(const uint8_t *p) { uint64_t v = 0; for (int i = 7; i >= 0; i--) v = (v << 8) | p[i]; return v; }

static uint32_t ref_mm32(const uint8_t *d, size_t n) {
    uint32_t h = 0; size_t nb = n / 4;
    for (size_t i = 0; i < nb; i++) { uint32_t k = le32(d + 4 * i); k *= 0xcc9e2d51u; k = rol32(k, 15); k *= 0x1b873593u; h ^= k; h = rol32(h, 13); h = h * 5 + 0xe6546b64u; }
    uint32_t k = 0; const uint8_t *t = d + 4 * nb;
    for (int i = (int)(n & 3) - 1; i >= 0; i--) k = (k << 8) | t[i];
    if (n & 3) { k *= 0xcc9e2d51u; k = rol32(k, 15); k *= 0x1b873593u; h ^= k; }
    h ^= (uint32_t)n; h ^= h >> 16; h *= 0x85ebca6bu; h ^= h >> 13; h *= 0xc2b2ae35u; h ^= h >> 16;
    return h;
}
static uint64_t fmix64(uint64_t k) { k ^= k >> 33; k *= 0xff51afd7ed558ccdULL; k ^= k >> 33; k *= 0xc4ceb9fe1a85ec53ULL; k ^= k >> 33; return k; }
static void ref_mm128(const uint8_t *d, size_t n, uint64_t out[2]) {
    const uint64_t c1 = 0x87c37b91114253d5ULL, c2 = 0x4cf5ad432745937fULL; uint64_t h1 = 0, h2 = 0; size_t nb = n / 16;
    for (size_t i = 0; i < nb; i++) {
        uint64_t k1 = le64(d + 16 * i), k2 = le64(d + 16 * i + 8);
        k1 *= c1; k1 = rol64(k1, 31); k1 *= c2; h1 ^= k1; h1 = rol64(h1, 27); h1 += h2; h1 = h1 * 5 + 0x52dce729;
        k2 *= c2; k2 = rol64(k2, 33); k2 *= c1; h2 ^= k2; h2 = rol64(h2, 31); h2 += h1; h2 = h2 * 5 + 0x38495ab5;
    }
    const uint8_t *t = d + 16 * nb; uint64_t k1 = 0, k2 = 0; int r = n & 15;
    for (int i = r - 1; i >= 8; i--) k2 = (k2 << 8) | t[i];
    for (int i = (r > 8 ? 8 : r) - 1; i >= 0; i--) k1 = (k1 << 8) | t[i];
    if (r > 8) { k2 *= c2; k2 = rol64(k2, 33); k2 *= c1; h2 ^= k2; }
    if (r > 0) { k1 *= c1; k1 = rol64(k1, 31); k1 *= c2; h1 ^= k1; }
    h1 ^= n; h2 ^= n; h1 += h2; h2 += h1; h1 = fmix64(h1); h2 = fmix64(h2); h1 += h2; h2 += h1;
    out[0] = h1; out[1] = h2;
}
static uint32_t ref_fnv32(const uint8_t *d, size_t n) { uint32_t h = 0x811C9DC5u; for (size_t i = 0; i < n; i++) { h *= 0x01000193u; h ^= d[i]; } return h; }
static uint64_t ref_fnv64(const uint8_t *d, size_t n) { uint64_t h = 0xCBF29CE484222325ULL; for (size_t i = 0; i < n; i++) { h *= 0x100000001B3ULL; h ^= d[i]; } return h; }
static uint32_t MD5K[64];
static void ref_md5(const uint8_t *msg, size_t n, uint8_t out[16]) {
    static const int S[64] = {7, 12, 17, 22, 7, 12, 17, 22, 7, 12, 17, 22, 7, 12, 17, 22, 5, 9, 14, 20, 5, 9, 14, 20, 5, 9, 14, 20, 5, 9, 14, 20, 4, 11, 16, 23, 4, 11, 16, 23, 4, 11, 16, 23, 4, 11, 16, 23, 6, 10, 15, 21, 6, 10, 15, 21, 6, 10, 15, 21, 6, 10, 15, 21};
    if (!MD5K[0]) for (int i = 0; i < 64; i++) MD5K[i] = (uint32_t)floor(fabs(sin((double)(i + 1))) * 4294967296.0);
    uint32_t a0 = 0x67452301, b0 = 0xefcdab89, c0 = 0x98badcfe, d0 = 0x10325476;
    /* whole blocks are read from the message itself, only the padded tail (at most two blocks) is built in a buffer */
    size_t tot = ((n + 8) / 64 + 1) * 64, body = n / 64 * 64; uint8_t tailb[128]; memset(tailb, 0, sizeof tailb); memcpy(tailb, msg + body, n - body); tailb[n - body] = 0x80;
    uint64_t bits = (uint64_t)n * 8; for (int i = 0; i < 8; i++) tailb[tot - body - 8 + i] = (bits >> (8 * i)) & 255;
    for (size_t off = 0; off < tot; off += 64) {
        const uint8_t *blk = off < body ? msg + off : tailb + (off - body);
        uint32_t M[16]; for (int i = 0; i < 16; i++) M[i] = le32(blk + 4 * i);
        uint32_t A = a0, B = b0, C = c0, D = d0;
        for (int i = 0; i < 64; i++) {
            uint32_t F; int g;
            if (i < 16) { F = (B & C) | (~B & D); g = i; } else if (i < 32) { F = (D & B) | (~D & C); g = (5 * i + 1) % 16; }
            else if (i < 48) { F = B ^ C ^ D; g = (3 * i + 5) % 16; } else { F = C ^ (B | ~D); g = (7 * i) % 16; }
            F = F + A + MD5K[i] + M[g]; A = D; D = C; C = B; B = B + rol32(F, S[i]);
        }
        a0 += A; b0 += B; c0 += C; d0 += D;
    }
    uint32_t r[4] = {a0, b0, c0, d0};
    for (int i = 0; i < 4; i++) for (int j = 0; j < 4; j++) out[4 * i + j] = (r[i] >> (8 * j)) & 255;
}

static int anchors(void) {
    int bad = 0; uint64_t o[2]; uint8_t md[16]; char hx[40];
    bad += ref_mm32((const uint8_t *)"hello", 5) != 0x248bfa47u;
    bad += ref_mm32((const uint8_t *)"The quick brown fox jumps over the lazy dog", 43) != 0x2e4ff723u;
    bad += ref_mm32((const uint8_t *)"", 0) != 0;
    ref_mm128((const uint8_t *)"hello", 5, o);
    bad += !(o[0] == 0xcbd8a7b341bd9b02ULL && o[1] == 0x5b1e906a48ae1d19ULL);
    ref_mm128((const uint8_t *)"The quick brown fox jumps over the lazy dog", 43, o);
    bad += !(o[0] == 0xe34bbc7bbc071b6cULL && o[1] == 0x7a433ca9c49a9347ULL);
    bad += ref_fnv32((const uint8_t *)"a", 1) != 0x050c5d7eu;
    bad += ref_fnv32((const uint8_t *)"foobar", 6) != 0x31f0b262u;
    bad += ref_fnv64((const uint8_t *)"a", 1) != 0xaf63bd4c8601b7beULL;
    bad += ref_fnv64((const uint8_t *)"foobar", 6) != 0x340d8765a4dda9c2ULL;
    static const char *rfc[][2] = {
        {"", "d41d8cd98f00b204e9800998ecf8427e"}, {"a", "0cc175b9c0f1b6a831c399e269772661"}, {"abc", "900150983cd24fb0d6963f7d28e17f72"},
        {"message digest", "f96b697d7cb7938d525a2f31aaf161d0"}, {"abcdefghijklmnopqrstuvwxyz", "c3fcd3d76192e4007dfb496cca67e13b"},
        {"ABCDEFGHIJKLMNOPQRSTUVWXYZabcdefghijklmnopqrstuvwxyz0123456789", "d174ab98d277d9f5a5611c2c9f419d9f"},
        {"12345678901234567890123456789012345678901234567890123456789012345678901234567890", "57edf4a22be3c955ac49da2e2107b67a"}};
    for (int i = 0; i < 7; i++) { ref_md5((const uint8_t *)rfc[i][0], strlen(rfc[i][0]), md); vc_hex(hx, md, 16); bad += strcmp(hx, rfc[i][1]) != 0; }
    if (bad) { printf("NOTE\treference anchor vectors failed: %d\n", bad); vc_stat_add("anchor_fail", bad); }
    return bad;
}

static long n_eval, n_nontrivial;
#define ASAN_CK(fn) do { const char *a_ = vc_asan_check(); if (a_) vc_viol("asan:" fn, "%s: %s inside " fn, what, a_); } while (0)
/* compare all five functions on buffer d[0..n) (exactly sized / guarded by the caller); tag names the case */
static void compare(const uint8_t *d, size_t n, const char *what) {
    uint8_t m1[16], m2[16]; char h1[40], h2[40];
    vc_label("qhashmd5");
    memset(m1, 0xcc, 16);
    if (!qhashmd5(d, n, m1)) vc_viol("md5:false", "%s: qhashmd5 returned false", what);
    ASAN_CK("qhashmd5");
    ref_md5(d, n, m2);
    if (memcmp(m1, m2, 16)) { vc_hex(h1, m1, 16); vc_hex(h2, m2, 16); vc_viol("md5:value", "%s: md5 %s want %s", what, h1, h2); }
    vc_label("qhashmurmur3_32");
    uint32_t a = qhashmurmur3_32(d, n), b = ref_mm32(d, n);
    ASAN_CK("qhashmurmur3_32");
    if (a != b) vc_viol("murmur3_32:value", "%s: %08x want %08x", what, a, b);
    vc_label("qhashmurmur3_128");
    uint64_t q[2] = {0, 0}, o[2];
    if (!qhashmurmur3_128(d, n, q)) vc_viol("murmur3_128:false", "%s: returned false", what);
    ASAN_CK("qhashmurmur3_128");
    ref_mm128(d, n, o);
    if (q[0] != o[0] || q[1] != o[1]) vc_viol("murmur3_128:value", "%s: %016llx%016llx want %016llx%016llx", what, (unsigned long long)q[0], (unsigned long long)q[1], (unsigned long long)o[0], (unsigned long long)o[1]);
    vc_label("qhashfnv1_32");
    uint32_t f = qhashfnv1_32(d, n), rf = ref_fnv32(d, n);
    ASAN_CK("qhashfnv1_32");
    if (f != rf) vc_viol("fnv1_32:value", "%s: %08x want %08x", what, f, rf);
    vc_label("qhashfnv1_64");
    uint64_t g = qhashfnv1_64(d, n), rg = ref_fnv64(d, n);
    ASAN_CK("qhashfnv1_64");
    if (g != rg) vc_viol("fnv1_64:value", "%s: %016llx want %016llx", what, (unsigned long long)g, (unsigned long long)rg);
}

static void small_case(const uint8_t *in, int len) {
    char key[32]; memcpy(key, "small:", 6); vc_hex(key + 6, in, len);
    if (!vc_case("hash", key)) return;
    n_eval++;
    uint8_t *b = malloc(len); memcpy(b, in, len);
    compare(b, len, key);
    free(b);
    const char *a = vc_asan_check();
    if (a) vc_viol("asan:hash", "%s in %s", a, vc_sh->label);
    int hasnul = 0; for (int i = 0; i < len; i++) hasnul |= !in[i];
    n_nontrivial += hasnul || len > 1;
    vc_case_end();
}
static void run_small(int len, int lo, int hi) {
    uint8_t in[4]; long tail = 1; for (int i = 1; i < len; i++) tail *= 256;
    for (int f = lo; f < hi; f++) for (long x = 0; x < tail; x++) {
        in[0] = f; long y = x; for (int i = 1; i < len; i++) { in[i] = y & 255; y >>= 8; }
        small_case(in, len);
        if ((x & 0xffff) == 0 && vc_deadline_hit()) return;
    }
    char hx[16]; vc_hex(hx, in, len); vc_sample("hash input (hex) %s", hx);
}

/* content classes */
enum { K_ZERO, K_FF, K_INC, K_LCG, K_WALK1, K_WALKNUL, K_NCLASS };
static void fill(uint8_t *b, int len, int cls, int pos) {
    for (int i = 0; i < len; i++) switch (cls) {
        case K_ZERO: b[i] = 0; break; case K_FF: b[i] = 0xff; break; case K_INC: b[i] = (uint8_t)(i + 1); break;
        case K_LCG: b[i] = (uint8_t)(1 + ((i * 131 + len * 7) % 255)); break;
        case K_WALK1: b[i] = i == pos ? 0x5a : 0; break;
        case K_WALKNUL: b[i] = i == pos ? 0 : (uint8_t)(1 + (i % 200)); break;
    }
}
static void grid_case(int len, int align, int cls, int pos) {
    char key[64]; snprintf(key, sizeof key, "grid:%d:%d:%d:%d", len, align, cls, pos);
    if (!vc_case("hash", key)) return;
    n_eval++; n_nontrivial++;
    /* exactly-ending block: data occupies [p+align, p+align+len) and the block ends there */
    uint8_t *p = malloc(align + len);
    fill(p + align, len, cls, pos);
    compare(p + align, len, key);
    /* purity: same bytes at another address, followed by different bytes, twice */
    uint8_t m1[16], m2[16]; uint64_t q1[2], q2[2];
    uint8_t *r = malloc(align + len + 32 + 5);
    uint8_t *d = r + ((align + 5) & 15) + 0;  /* different alignment class as well */
    memcpy(d, p + align, len); memset(d + len, 0xEE, 16);
    qhashmd5(d, len, m1); qhashmurmur3_128(d, len, q1);
    uint32_t a1 = qhashmurmur3_32(d, len), f1 = qhashfnv1_32(d, len); uint64_t g1 = qhashfnv1_64(d, len);
    memset(d + len, 0x00, 16);
    qhashmd5(d, len, m2); qhashmurmur3_128(d, len, q2);
    uint32_t a2 = qhashmurmur3_32(d, len), f2 = qhashfnv1_32(d, len); uint64_t g2 = qhashfnv1_64(d, len);
    if (memcmp(m1, m2, 16)) vc_viol("md5:impure", "%s: depends on bytes after the buffer", key);
    if (q1[0] != q2[0] || q1[1] != q2[1]) vc_viol("murmur3_128:impure", "%s: depends on bytes after the buffer", key);
    if (a1 != a2) vc_viol("murmur3_32:impure", "%s: depends on bytes after the buffer", key);
    if (f1 != f2) vc_viol("fnv1_32:impure", "%s: depends on bytes after the buffer", key);
    if (g1 != g2) vc_viol("fnv1_64:impure", "%s: depends on bytes after the buffer", key);
    /* and equal to the value at the first address */
    uint8_t m0[16]; qhashmd5(p + align, len, m0);
    if (memcmp(m0, m1, 16)) vc_viol("md5:impure", "%s: depends on the address", key);
    if (a1 != qhashmurmur3_32(p + align, len)) vc_viol("murmur3_32:impure", "%s: depends on the address", key);
    uint64_t q0[2]; qhashmurmur3_128(p + align, len, q0);
    if (q0[0] != q1[0] || q0[1] != q1[1]) vc_viol("murmur3_128:impure", "%s: depends on the address", key);
    free(r); free(p);
    const char *a = vc_asan_check();
    if (a) vc_viol("asan:hash", "%s in %s (%s)", a, vc_sh->label, key);
    vc_case_end();
}
static int lens[700], nlens;
static void mklens(int thorough) {
    for (int i = 1; i <= 600; i++) lens[nlens++] = i;
    int sp[] = {1023, 1024, 1025, 4095, 4096, 4097, 65535, 65536, 65537};
    for (int i = 0; i < 9; i++) lens[nlens++] = sp[i];
    (void)thorough;
}
static void run_grid(long shard, long nshards, int thorough) {
    mklens(thorough);
    long idx = 0;
    for (int li = 0; li < nlens; li++) {
        if (idx++ % nshards != shard) continue;
        int len = lens[li];
        if (vc_deadline_hit()) return;
        int astep = (thorough || len <= 130) ? 1 : 3;      /* quick: alignments 0,3,6,..,15 for long buffers */
        for (int al = 0; al < 16; al += astep) {
            for (int cls = 0; cls < 4; cls++) grid_case(len, al, cls, 0);
            if (len <= 130) for (int pos = 0; pos < len; pos++) { grid_case(len, al, K_WALK1, pos); grid_case(len, al, K_WALKNUL, pos); }
            else { grid_case(len, al, K_WALKNUL, 0); grid_case(len, al, K_WALKNUL, len / 2); grid_case(len, al, K_WALKNUL, len - 1); }
        }
    }
    vc_sample("grid case len=%d align=15 class=walking-NUL pos=%d", lens[nlens > 1 ? (shard % nlens) : 0], 0);
}

static void run_file(void) {
    char path[256]; snprintf(path, sizeof path, "%s/c18_file_%d.bin", getenv("TMPDIR") ? getenv("TMPDIR") : "/tmp", (int)getpid());
    int sizes[160], ns = 0;
    for (int i = 0; i <= 130; i++) sizes[ns++] = i;
    sizes[ns++] = 32767; sizes[ns++] = 32768; sizes[ns++] = 32769; sizes[ns++] = 65537;
    for (int si = 0; si < ns; si++) {
        int size = sizes[si];
        uint8_t *content = malloc(size + 1);
        for (int i = 0; i < size; i++) content[i] = (uint8_t)((i * 37 + 11) % 251);
        int fd = open(path, O_WRONLY | O_CREAT | O_TRUNC, 0600);
        if (fd < 0 || write(fd, content, size) != size) { printf("NOTE\tcannot write temp file\n"); vc_stat_add("anchor_fail", 1); return; }
        close(fd);
        long offs[8] = {0, 1, size / 2, size - 1, size, size + 1, 32768, 7}; long nbs[8] = {0, 1, size / 2, size - 1, size, size + 1, 32768, 64};
        for (int oi = 0; oi < 8; oi++) for (int ni = 0; ni < 8; ni++) {
            long off = offs[oi], nb = nbs[ni];
            if (off < 0 || nb < 0) continue;
            char key[64]; snprintf(key, sizeof key, "file:%d:%ld:%ld", size, off, nb);
            if (!vc_case("qhashmd5_file", key)) continue;
            n_eval++; n_nontrivial++;
            uint8_t m1[16], m2[16]; memset(m1, 0, 16);
            bool ok = qhashmd5_file(path, off, nb, m1);
            bool want_ok = off + nb <= size;
            if (ok != want_ok) vc_viol("md5file:accept", "%s: returned %d want %d", key, ok, want_ok);
            else if (ok) {
                long cnt = nb == 0 ? size - off : nb;
                ref_md5(content + off, cnt, m2);
                if (memcmp(m1, m2, 16)) vc_viol("md5file:value", "%s: digest differs from MD5 of that byte range", key);
            }
            if (vc_asan_check()) vc_viol("asan:md5file", "%s", key);
            vc_case_end();
        }
        free(content);
    }
    unlink(path);
    vc_sample("qhashmd5_file size=32769 offset=1 nbytes=32768");
}

#ifdef C18_ENV
/* ---- qhashmd5_file against every environment answer: the file system calls it makes are wrapped (--wrap=read,fstat)
 * and each call is a choice point. Default answer 0 = the real call; deviations: read 1 = one byte only, 2 = half of the
 * request, 3 = error EIO, 4 = EINTR, 5 = the file has been truncated (this and every later read return 0);
 * fstat 1 = error EIO. All plans with at most D deviations are enumerated (deviation-bounded search). */
ssize_t __real_read(int fd, void *buf, size_t n); int __real_fstat(int fd, struct stat *st);
static int env_on, env_plan[64], env_nplan, env_pos, env_calls, env_trunc, env_menu[64], env_endless;
static int env_choice(int menu) { int p = env_pos++; if (p >= 64) return 0; env_menu[p] = menu; return p < env_nplan ? env_plan[p] : 0; }
ssize_t __wrap_read(int fd, void *buf, size_t n) {
    if (!env_on) return __real_read(fd, buf, n);
    if (++env_calls > 2000) { env_endless = 1; errno = EIO; return -1; }      /* let an endless loop end, reported below */
    if (env_trunc) return 0;
    switch (env_choice(6)) {
        case 1: return __real_read(fd, buf, n > 1 ? 1 : n);
        case 2: return __real_read(fd, buf, n > 1 ? n / 2 : n);
        case 3: errno = EIO; return -1;
        case 4: errno = EINTR; return -1;
        case 5: env_trunc = 1; return 0;
        default: return __real_read(fd, buf, n);
    }
}
int __wrap_fstat(int fd, struct stat *st) {
    if (!env_on) return __real_fstat(fd, st);
    if (env_choice(2) == 1) { errno = EIO; return -1; }
    return __real_fstat(fd, st);
}
static int lowest_fd(void) { int fd = open("/dev/null", O_RDONLY); close(fd); return fd; }
static long n_plans, n_dev0, n_dev1, n_dev2, n_outcome_true, n_outcome_false;
static void env_run(const char *path, const uint8_t *content, int size, long off, long nb, int D) {
    int plan[64], nplan = 0;
    /* iterative DFS over plans: run, then extend at every choice point after the prefix */
    typedef struct { int plan[12]; int n; } item_t;
    static item_t stack[20000]; int sp = 0; stack[sp++] = (item_t){{0}, 0};
    while (sp > 0) {
        item_t it = stack[--sp];
        memcpy(plan, it.plan, sizeof it.plan); nplan = it.n;
        int ndev = 0, hard = 0, eintr = 0, trunc = 0; for (int i = 0; i < nplan; i++) if (plan[i]) ndev++;
        char key[160], *k = key; k += sprintf(k, "fileenv:%d:%ld:%ld:", size, off, nb); for (int i = 0; i < nplan; i++) k += sprintf(k, "%d", plan[i]);
        if (!vc_case("qhashmd5_file", key)) continue;
        n_eval++; n_nontrivial++; n_plans++; if (ndev == 0) n_dev0++; else if (ndev == 1) n_dev1++; else n_dev2++;
        memcpy(env_plan, plan, sizeof plan); env_nplan = nplan; env_pos = env_calls = env_trunc = env_endless = 0;
        uint8_t m1[16], m2[16]; memset(m1, 0, 16);
        int fd0 = lowest_fd();
        env_on = 1; errno = 0; bool ok = qhashmd5_file(path, off, nb, m1); env_on = 0;
        int fd1 = lowest_fd(), npoints = env_pos;
        for (int i = 0; i < nplan && i < npoints; i++) { if (env_menu[i] == 2 ? plan[i] == 1 : plan[i] == 3) hard = 1; if (env_menu[i] == 6 && plan[i] == 4) eintr = 1; if (env_menu[i] == 6 && plan[i] == 5) trunc = 1; }
        long cnt = nb == 0 ? size - off : nb;
        if (cnt == 0) trunc = 0;                      /* nothing to read: the read loop is not entered */
        /* within the property: short reads (the digest may not depend on how the bytes arrive) and a read that hits the end of the
         * file before st_size is reached - every sysfs attribute reports 4096 bytes and holds a few, so qhashmd5_file(path, 0, 0)
         * meets that without any concurrency: it must return (false), not call read() forever. A descriptor left open when fstat
         * fails is reported in class robust:*, which C18 does not count */
        if (env_endless) vc_viol("md5file:endless", "%s: still calling read() after 2000 calls although read() reports the end of the file", key);
        else if (hard || trunc) { if (ok) vc_viol("md5file:accept", "%s: returned true although %s", key, hard ? "a system call failed" : "the file ended early"); }
        else if (!ok) { if (!eintr) vc_viol("md5file:accept", "%s: returned false although every byte could be read (short reads only)", key); }
        else { ref_md5(content + off, cnt, m2); if (memcmp(m1, m2, 16)) vc_viol("md5file:value", "%s: digest differs from MD5 of that byte range", key); }
        if (ok) n_outcome_true++; else n_outcome_false++;
        if (fd1 != fd0) { vc_viol("robust:md5file-fd-leak", "%s: a file descriptor stays open after the call (returned %d)", key, ok); for (int f = fd0; f <= fd1; f++) close(f); }
        if (vc_asan_check()) vc_viol("asan:md5file", "%s", key);
        vc_case_end();
        /* children: deviate at one later choice point */
        if (ndev < D) for (int i = npoints - 1; i >= nplan && i < 12; i--) for (int a = env_menu[i] - 1; a >= 1; a--) {
            if (sp >= 20000) { vc_exhaustive = 0; break; }
            item_t c = {{0}, i + 1}; memcpy(c.plan, plan, sizeof(int) * nplan); c.plan[i] = a; stack[sp++] = c;
        }
    }
}
static void run_fileenv(int D) {
    char path[256]; snprintf(path, sizeof path, "%s/c18_env_%d.bin", getenv("TMPDIR") ? getenv("TMPDIR") : "/tmp", (int)getpid());
    int sizes[] = {0, 1, 100, 32768, 32769, 70000};
    for (size_t si = 0; si < sizeof sizes / sizeof sizes[0]; si++) {
        int size = sizes[si]; uint8_t *content = malloc(size + 1);
        for (int i = 0; i < size; i++) content[i] = (uint8_t)((i * 37 + 11) % 251);
        int fd = open(path, O_WRONLY | O_CREAT | O_TRUNC, 0600);
        if (fd < 0 || write(fd, content, size) != size) { printf("NOTE\tcannot write temp file\n"); vc_stat_add("anchor_fail", 1); return; }
        close(fd);
        env_run(path, content, size, 0, 0, D);
        if (size > 1) { env_run(path, content, size, 1, size - 1, D); env_run(path, content, size, 0, size / 2, D); }
        free(content);
    }
    unlink(path);
    vc_stat_add("env_plans", n_plans); vc_stat_add("env_plans_0_deviations", n_dev0); vc_stat_add("env_plans_1_deviation", n_dev1); vc_stat_add("env_plans_2_deviations", n_dev2);
    vc_stat_add("env_returned_true", n_outcome_true); vc_stat_add("env_returned_false", n_outcome_false);
    vc_sample("qhashmd5_file(70000 bytes) with read answers [full, 1 byte, truncated]: must return false, not loop");
}
#endif

#ifdef C18_MT
/* ---- re-entrancy: "each result is a pure function of exactly the given bytes" also while another thread is inside a hash
 * function. Two threads, one call each from a menu (qhashmd5_file on two files and on two ranges of the same file, qhashmd5,
 * MurmurHash3 32/128, FNV-1 32/64 on buffers of their own) run under the E2 scheduler (engines/sched/sched.c) with a scheduling
 * point at every read() (--wrap): every interleaving of the system calls of the two threads with <= PB preemptions. Every
 * result must equal the reference computed beforehand; in the tsan flavour (hand-offs invisible to the sanitizer) any data
 * race report is a violation: state shared between two calls shows up in every schedule in which both touch it. */
#include "../sched/sched.h"
ssize_t __real_read(int fd, void *buf, size_t n);
ssize_t __wrap_read(int fd, void *buf, size_t n) { sc_yield(); ssize_t r = __real_read(fd, buf, n); sc_yield(); return r; }   /* before: order of the system calls; after: the caller has its bytes but has not used them yet */
#define MT_MENU 8
static const char *MT_FN[MT_MENU] = {"md5file", "md5file", "md5file", "md5", "murmur3_32", "murmur3_128", "fnv1_32", "fnv1_64"};
static const char *MT_LABEL[MT_MENU] = {"qhashmd5_file", "qhashmd5_file", "qhashmd5_file", "qhashmd5", "qhashmurmur3_32", "qhashmurmur3_128", "qhashfnv1_32", "qhashfnv1_64"};
static char mt_path[2][256]; static uint8_t *mt_file[2]; static const int MT_FSIZE[2] = {70000, 50013};
static uint8_t *mt_buf[2][MT_MENU]; static const int MT_BLEN[MT_MENU] = {0, 0, 0, 1000, 1001, 1003, 999, 998};
static uint8_t mt_ref[2][MT_MENU][16], mt_res[2][16]; static int mt_ok[2], mt_prog[2];
static volatile int mt_tsan_reports;
#ifdef VC_TSAN
void __tsan_on_report(void *rep) { (void)rep; mt_tsan_reports++; }
#endif
static void mt_call(int tid, int k, uint8_t out[16], int *ok, int reference) {
    memset(out, 0, 16); *ok = 1;
    const uint8_t *b = mt_buf[tid][k]; size_t n = MT_BLEN[k];
    switch (k) {
        case 0: if (reference) ref_md5(mt_file[0], MT_FSIZE[0], out); else *ok = qhashmd5_file(mt_path[0], 0, 0, out); break;
        case 1: if (reference) ref_md5(mt_file[1] + 13, 40000, out); else *ok = qhashmd5_file(mt_path[1], 13, 40000, out); break;
        case 2: if (reference) ref_md5(mt_file[0] + 1, MT_FSIZE[0] - 1, out); else *ok = qhashmd5_file(mt_path[0], 1, MT_FSIZE[0] - 1, out); break;
        case 3: if (reference) ref_md5(b, n, out); else *ok = qhashmd5(b, n, out); break;
        case 4: { uint32_t h = reference ? ref_mm32(b, n) : qhashmurmur3_32(b, n); memcpy(out, &h, 4); break; }
        case 5: { uint64_t q[2] = {0, 0}; if (reference) ref_mm128(b, n, q); else *ok = qhashmurmur3_128(b, n, q); memcpy(out, q, 16); break; }
        case 6: { uint32_t h = reference ? ref_fnv32(b, n) : qhashfnv1_32(b, n); memcpy(out, &h, 4); break; }
        case 7: { uint64_t h = reference ? ref_fnv64(b, n) : qhashfnv1_64(b, n); memcpy(out, &h, 8); break; }
    }
}
static void mt_body(int tid) { mt_call(tid, mt_prog[tid], mt_res[tid], &mt_ok[tid], 0); }
static long mt_exec, mt_programs, mt_maxsched, mt_sched_this;
static void mt_run_one(void) {
    char key[VC_KEYMAX], *k = key; k += sprintf(k, "mt:%d:%d:", mt_prog[0], mt_prog[1]); for (int i = 0; i < sc_nprefix; i++) k += sprintf(k, "%d", sc_prefix[i]);
    if (!vc_case(MT_LABEL[mt_prog[0]], key)) { sc_np = 0; return; }
    n_eval++; n_nontrivial++; mt_exec++;
    int t0 = mt_tsan_reports;
    sc_run(2, mt_body);
    { char *q = key; q += sprintf(q, "mt:%d:%d:", mt_prog[0], mt_prog[1]); for (int i = 0; i < sc_np && i < 200; i++) q += sprintf(q, "%d", sc_choice[i]); snprintf(vc_sh->key, VC_KEYMAX, "%s", key); }
    if (sc_diverged) vc_stat_add("replay_divergence", 1);
    if (sc_deadlock || sc_livelock || sc_overflow) { vc_viol("md5file:stuck", "%s: the two calls never finish", key); vc_case_end(); return; }
    for (int t = 0; t < 2; t++) {
        char cls[64]; int f = mt_prog[t];
        if (!mt_ok[t]) { snprintf(cls, sizeof cls, "%s:reentrancy", MT_FN[f]); vc_viol(cls, "%s: call of thread %d (%s) returned false while thread %d ran %s", key, t, MT_LABEL[f], 1 - t, MT_LABEL[mt_prog[1 - t]]); }
        else if (memcmp(mt_res[t], mt_ref[t][f], 16)) { snprintf(cls, sizeof cls, "%s:reentrancy", MT_FN[f]); vc_viol(cls, "%s: result of thread %d (%s) differs from the published algorithm while thread %d ran %s concurrently", key, t, MT_LABEL[f], 1 - t, MT_LABEL[mt_prog[1 - t]]); }
    }
    if (mt_tsan_reports != t0) { char cls[64]; snprintf(cls, sizeof cls, "%s:data-race", MT_FN[mt_prog[0]]); vc_viol(cls, "%s: thread sanitizer reported a data race between %s and %s", key, MT_LABEL[mt_prog[0]], MT_LABEL[mt_prog[1]]); }
#ifdef VC_ASAN
    if (vc_asan_check()) vc_viol("asan:reentrancy", "%s", key);
#endif
    vc_case_end();
}
static void mt_explore(const int *prefix, int nprefix, int PB) {
    memcpy(sc_prefix, prefix, sizeof(int) * nprefix); sc_nprefix = nprefix;
    mt_run_one(); mt_sched_this++;
    int np = sc_np; if (np == 0) return;
    int *choice = malloc(sizeof(int) * np), *nen = malloc(sizeof(int) * np), *curen = malloc(sizeof(int) * np);
    memcpy(choice, sc_choice, sizeof(int) * np); memcpy(nen, sc_nen, sizeof(int) * np); memcpy(curen, sc_cur_en, sizeof(int) * np);
    int cost = 0; for (int i = 0; i < nprefix && i < np; i++) if (choice[i] != 0 && curen[i]) cost++;
    for (int i = nprefix; i < np; i++) {
        if (cost + (curen[i] ? 1 : 0) <= PB) for (int alt = 1; alt < nen[i]; alt++) {
            int *p2 = malloc(sizeof(int) * (i + 1)); memcpy(p2, choice, sizeof(int) * i); p2[i] = alt;
            mt_explore(p2, i + 1, PB); free(p2);
            if (vc_deadline_hit()) break;
        }
    }
    free(choice); free(nen); free(curen);
}
static int mt_setup(void) {
    for (int f = 0; f < 2; f++) {
        snprintf(mt_path[f], sizeof mt_path[f], "%s/c18_mt_%d_%d.bin", getenv("TMPDIR") ? getenv("TMPDIR") : "/tmp", (int)getpid(), f);
        mt_file[f] = malloc(MT_FSIZE[f]); for (int i = 0; i < MT_FSIZE[f]; i++) mt_file[f][i] = (uint8_t)((i * (37 + 4 * f) + 11 + f) % 251);
        int fd = open(mt_path[f], O_WRONLY | O_CREAT | O_TRUNC, 0600);
        if (fd < 0 || write(fd, mt_file[f], MT_FSIZE[f]) != MT_FSIZE[f]) { printf("NOTE\tcannot write temp file\n"); vc_stat_add("anchor_fail", 1); return 1; }
        close(fd);
    }
    for (int t = 0; t < 2; t++) for (int k = 0; k < MT_MENU; k++) {
        if (MT_BLEN[k]) { mt_buf[t][k] = malloc(MT_BLEN[k]); for (int i = 0; i < MT_BLEN[k]; i++) mt_buf[t][k][i] = (uint8_t)(i * 13 + 7 * k + 101 * t + (i % 17 == 3 ? 0 : 1)); }
        int ok; mt_call(t, k, mt_ref[t][k], &ok, 1);
    }
    return 0;
}
static void run_mt(int PB) {
    if (mt_setup()) return;
    for (int a = 0; a < MT_MENU; a++) for (int b = 0; b < MT_MENU; b++) {
        if (vc_deadline_hit()) break;
        mt_prog[0] = a; mt_prog[1] = b; mt_sched_this = 0;
        mt_explore(NULL, 0, PB);
        mt_programs++; if (mt_sched_this > mt_maxsched) mt_maxsched = mt_sched_this;
        if (a < 3 && b == a) vc_sample("T0: %s | T1: %s (calls %d and %d of the menu): %ld schedules with <= %d preemptions at read() granularity", MT_LABEL[a], MT_LABEL[b], a, b, mt_sched_this, PB);
    }
    unlink(mt_path[0]); unlink(mt_path[1]);
    vc_stat_add("mt_programs", mt_programs); vc_stat_add("mt_executions", mt_exec); vc_stat_add("mt_max_schedules_per_program", mt_maxsched); vc_stat_add("mt_tsan_reports", mt_tsan_reports);
}
static void mt_replay(const char *key) {
    int off = 0; if (sscanf(key, "mt:%d:%d:%n", &mt_prog[0], &mt_prog[1], &off) < 2 || mt_setup()) return;
    int prefix[SC_MAXP], n = 0; for (const char *p = key + off; *p >= '0' && *p <= '9' && n < SC_MAXP; p++) prefix[n++] = *p - '0';
    memcpy(sc_prefix, prefix, sizeof(int) * n); sc_nprefix = n; mt_run_one();
    uint8_t r0[2][16]; memcpy(r0, mt_res, sizeof r0);
    memcpy(sc_prefix, prefix, sizeof(int) * n); sc_nprefix = n; mt_run_one();
    if (memcmp(r0, mt_res, sizeof r0)) printf("NOTE\tREPLAY NOT DETERMINISTIC\n");
    unlink(mt_path[0]); unlink(mt_path[1]);
}
#endif

/* lengths around 2^31: block counts and tail offsets that do not fit into an int. The buffer is an anonymous mapping (untouched
 * pages are the shared zero page) with a few non-zero bytes at both ends; the references use size_t throughout. */
#include <sys/mman.h>
static void run_hugelen(int thorough) {
    const size_t LN[] = {2147483651u, 2147483663u, 2147483647u, 2147483648u, 4294967299u};
    size_t cap = 4294967299u + 16;
    uint8_t *buf = mmap(NULL, cap, PROT_READ | PROT_WRITE, MAP_PRIVATE | MAP_ANONYMOUS | MAP_NORESERVE, -1, 0);
    if (buf == MAP_FAILED) { vc_stat_add("hugelen_skipped", 1); printf("NOTE\tcannot map %zu bytes here: family skipped\n", cap); return; }
    for (int i = 0; i < 5; i++) { if (!thorough && i >= 2) break;
        size_t n = LN[i]; char key[64]; snprintf(key, sizeof key, "hugelen:%zu", n);
        if (!vc_case("qhashmurmur3_32", key)) continue;
        n_eval++; n_nontrivial++;
        buf[0] = 0x11; buf[5] = 0x80; buf[n - 1] = 0x7f; buf[n - 2] = 0xfe; buf[n - 17] = 0x33;
        uint32_t h = qhashmurmur3_32(buf, n), hr = ref_mm32(buf, n);
        if (h != hr) vc_viol("murmur3_32:value", "%s: %08x, MurmurHash3_x86_32 of these %zu bytes is %08x", key, h, n, hr);
        vc_label("qhashmurmur3_128");
        uint64_t q[2] = {0, 0}, qr[2]; ref_mm128(buf, n, qr);
        if (!qhashmurmur3_128(buf, n, q)) vc_viol("murmur3_128:false", "%s: returned false", key);
        else if (q[0] != qr[0] || q[1] != qr[1]) vc_viol("murmur3_128:value", "%s: differs from MurmurHash3_x64_128 of these %zu bytes", key, n);
        vc_label("qhashfnv1_32");
        if (qhashfnv1_32(buf, n) != ref_fnv32(buf, n)) vc_viol("fnv1_32:value", "%s: differs from FNV-1 32 of these %zu bytes", key, n);
        if (i == 0) {   /* MD5 of 2^29 + 777 bytes in one call: the bit count of a single update no longer fits into 32 bits */
            size_t mn = 536870912u + 777; uint8_t m1[16], m2[16]; vc_label("qhashmd5");
            if (!qhashmd5(buf, mn, m1)) vc_viol("md5:false", "%s: qhashmd5 of %zu bytes returned false", key, mn);
            else { ref_md5(buf, mn, m2); if (memcmp(m1, m2, 16)) vc_viol("md5:value", "%s: qhashmd5 of %zu bytes differs from RFC 1321 MD5", key, mn); }
        }
        buf[n - 1] = buf[n - 2] = buf[n - 17] = 0;
        vc_case_end();
    }
    munmap(buf, cap);
    vc_sample("qhashmurmur3_32 / _128 / fnv1_32 of 2^31+3 and 2^31+15 bytes (thorough: 2^31-1, 2^31, 2^32+3 as well; zero pages with marked ends)");
}

static int replay(const char *key) {
    if (!strncmp(key, "small:", 6)) { uint8_t in[8]; int n = vc_unhex(key + 6, in); small_case(in, n); }
    else if (!strncmp(key, "grid:", 5)) { int l, a, c, p; sscanf(key + 5, "%d:%d:%d:%d", &l, &a, &c, &p); grid_case(l, a, c, p); }
    else if (!strncmp(key, "file:", 5)) run_file();
    else if (!strncmp(key, "hugelen:", 8)) run_hugelen(1);
#ifdef C18_ENV
    else if (!strncmp(key, "fileenv:", 8)) { vc_viol_print_per_class = 3; run_fileenv(2); }
#endif
#ifdef C18_MT
    else if (!strncmp(key, "mt:", 3)) mt_replay(key);
#endif
    return 0;
}
static int worker(int argc, char **argv) {
    vc_dirty_bytes = 2048;   /* leaf routines with small frames; millions of cases */
    if (anchors()) return 1;
    if (vc_replay_key) return replay(vc_replay_key);
    if (!strcmp(argv[1], "small")) run_small(atoi(argv[2]), atoi(argv[3]), atoi(argv[4]));
    else if (!strcmp(argv[1], "grid")) run_grid(atol(argv[2]), atol(argv[3]), argc > 4 && atoi(argv[4]));
    else if (!strcmp(argv[1], "file")) run_file();
    else if (!strcmp(argv[1], "hugelen")) { vc_hang_ticks = 300; run_hugelen(argc > 2 && atoi(argv[2])); }
#ifdef C18_ENV
    else if (!strcmp(argv[1], "fileenv")) run_fileenv(atoi(argv[2]));
#endif
#ifdef C18_MT
    else if (!strcmp(argv[1], "mt")) { vc_hang_ticks = 20; run_mt(atoi(argv[2])); }
#endif
    vc_stat_add("evaluations", n_eval);
    vc_stat_add("nontrivial", n_nontrivial);
    return 0;
}
int main(int argc, char **argv) { return vc_main(argc, argv, worker); }
