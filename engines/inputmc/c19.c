/* C19 - string utilities compute exactly their documented function with bounded writes.
 * Exhaustive argument tuples against one-line reference definitions; all buffers exactly sized
 * heap blocks so ASan sees every byte written or read outside the contract.
 *   c19 trim|unchar|replace <tokidx>|copy|tok|gets|misc|dup
 */
#include "vc.h"
#include "qlibc.h"

static long n_eval, n_nontrivial;
static int isws(char c) { return c == ' ' || c == '\t' || c == '\r' || c == '\n'; }
static char *hs(const char *s, size_t extra) { char *p = malloc(strlen(s) + 1 + extra); strcpy(p, s); return p; }
static void hexs(char *o, const char *s) { vc_hex(o, s, strlen(s)); }

typedef void (*fn_t)(const char *);
static void gen(const char *alpha, int na, int maxlen, fn_t f) {
    char buf[16];
    for (int len = 0; len <= maxlen; len++) {
        long tot = 1; for (int i = 0; i < len; i++) tot *= na;
        for (long x = 0; x < tot; x++) { long y = x; for (int i = 0; i < len; i++) { buf[i] = alpha[y % na]; y /= na; } buf[len] = 0; f(buf); }
    }
}
#define BEGIN(label, ...) char key_[256]; { char hx_[64]; hexs(hx_, s); snprintf(key_, sizeof key_, __VA_ARGS__); } if (!vc_case(label, key_)) return; n_eval++;
#define END() do { const char *a_ = vc_asan_check(); if (a_) vc_viol_key("asan:string", key_, "%s in %s", a_, vc_sh->label); vc_case_end(); } while (0)

/* ---- trim ---- */
static void t_trim(const char *s) {
    BEGIN("qstrtrim", "trim:%s", hx_);
    size_t l = strlen(s), a = 0, b = l;
    while (a < l && isws(s[a])) a++;
    while (b > a && isws(s[b - 1])) b--;
    char exp[16]; memcpy(exp, s + a, b - a); exp[b - a] = 0;
    char *p = hs(s, 0);
    if (qstrtrim(p) != p || strcmp(p, exp)) vc_viol("qstrtrim:value", "trim of %s gives '%s'", key_, p);
    free(p);
    vc_label("qstrtrim_head");
    p = hs(s, 0);
    if (qstrtrim_head(p) != p || strcmp(p, s + a)) vc_viol("qstrtrim_head:value", "%s gives '%s'", key_, p);
    free(p);
    vc_label("qstrtrim_tail");
    p = hs(s, 0); size_t bb = l; while (bb > 0 && isws(s[bb - 1])) bb--;
    char e2[16]; memcpy(e2, s, bb); e2[bb] = 0;
    if (qstrtrim_tail(p) != p || strcmp(p, e2)) vc_viol("qstrtrim_tail:value", "%s gives '%s'", key_, p);
    free(p);
    n_nontrivial += (a > 0 || b < l);
    END();
}
/* ---- unchar ---- */
static void t_unchar(const char *s) {
    BEGIN("qstrunchar", "unchar:%s", hx_);
    size_t l = strlen(s);
    for (int h = 0; h < 2; h++) for (int t = 0; t < 2; t++) {
        char hc = "\"'"[h], tc = "\"'"[t];
        char *p = hs(s, 0); char *r = qstrunchar(p, hc, tc);
        int ok = l >= 2 && s[0] == hc && s[l - 1] == tc;
        if ((r != NULL) != ok) vc_viol("qstrunchar:return", "%s head %c tail %c: returned %s", key_, hc, tc, r ? "non-NULL" : "NULL");
        else if (ok) { if (r != p || strlen(p) != l - 2 || strncmp(p, s + 1, l - 2)) vc_viol("qstrunchar:value", "%s head %c tail %c gives '%s'", key_, hc, tc, p); n_nontrivial++; }
        else if (strcmp(p, s)) vc_viol("qstrunchar:modified-on-failure", "%s", key_);
        free(p);
    }
    END();
}
/* ---- replace ---- */
static const char *TOK, *WORD;
static void t_repl(const char *s) {
    BEGIN("qstrreplace", "replace:%s:%s:%s", TOK, WORD, hx_);
    char exp[128]; char *o = exp; size_t tl = strlen(TOK); int hits = 0;
    for (const char *p = s; *p;) { if (!strncmp(p, TOK, tl)) { strcpy(o, WORD); o += strlen(WORD); p += tl; hits++; } else *o++ = *p++; }
    *o = 0;
    vc_label("qstrreplace(sn)");
    char *src = hs(s, 0); char *r = qstrreplace("sn", src, TOK, WORD);
    if (!r || strcmp(r, exp)) vc_viol("qstrreplace:sn-value", "%s gives '%s' want '%s'", key_, r ? r : "(null)", exp);
    if (r == src) vc_viol("qstrreplace:sn-not-new", "%s returned the source buffer", key_);
    if (strcmp(src, s)) vc_viol("qstrreplace:sn-modified-source", "%s", key_);
    if (r != src) free(r);
    free(src);
    vc_label("qstrreplace(sr)");
    size_t need = strlen(exp) > strlen(s) ? strlen(exp) : strlen(s);
    src = malloc(need + 1); strcpy(src, s);
    r = qstrreplace("sr", src, TOK, WORD);
    if (r != src || strcmp(src, exp)) vc_viol("qstrreplace:sr-value", "%s gives '%s' want '%s'", key_, src, exp);
    free(src);
    o = exp; int thits = 0;
    for (const char *p = s; *p; p++) { if (strchr(TOK, *p)) { strcpy(o, WORD); o += strlen(WORD); thits++; } else *o++ = *p; }
    *o = 0;
    vc_label("qstrreplace(tn)");
    src = hs(s, 0); r = qstrreplace("tn", src, TOK, WORD);
    if (!r || strcmp(r, exp)) vc_viol("qstrreplace:tn-value", "%s gives '%s' want '%s'", key_, r ? r : "(null)", exp);
    if (strcmp(src, s)) vc_viol("qstrreplace:tn-modified-source", "%s", key_);
    if (r != src) free(r);
    free(src);
    vc_label("qstrreplace(tr)");
    need = strlen(exp) > strlen(s) ? strlen(exp) : strlen(s);
    src = malloc(need + 1); strcpy(src, s);
    r = qstrreplace("tr", src, TOK, WORD);
    if (r != src || strcmp(src, exp)) vc_viol("qstrreplace:tr-value", "%s gives '%s' want '%s'", key_, src, exp);
    free(src);
    n_nontrivial += (hits > 0 || thits > 0);
    END();
}
/* ---- bounded copy ---- */
static void t_copy(const char *s) {
    BEGIN("qstrncpy", "copy:%s", hx_);
    size_t l = strlen(s);
    for (size_t size = 1; size <= l + 2; size++) {
        for (size_t nb = 0; nb <= l; nb++) {
            char *d = malloc(size); memset(d, '#', size); char *src = hs(s, 0);
            char *r = qstrncpy(d, size, src, nb);
            size_t c = nb < size ? nb : size - 1;
            if (r != d || d[c] != 0 || strncmp(d, s, c)) vc_viol("qstrncpy:value", "%s size %zu nbytes %zu", key_, size, nb);
            for (size_t i = c + 1; i < size; i++) if (d[i] != '#') { vc_viol("qstrncpy:extra-write", "%s size %zu nbytes %zu wrote at %zu", key_, size, nb, i); break; }
            free(d); free(src);
        }
        vc_label("qstrcpy");
        char *d = malloc(size); memset(d, '#', size); char *src = hs(s, 0);
        char *r = qstrcpy(d, size, src);
        size_t c = l < size ? l : size - 1;
        if (r != d || d[c] != 0 || strncmp(d, s, c)) vc_viol("qstrcpy:value", "%s size %zu", key_, size);
        for (size_t i = c + 1; i < size; i++) if (d[i] != '#') { vc_viol("qstrcpy:extra-write", "%s size %zu wrote at %zu", key_, size, i); break; }
        free(d); free(src);
        n_nontrivial += size <= l;
    }
    /* overlapping source/destination inside one buffer, every offset both ways */
    vc_label("qstrncpy(overlap)");
    for (size_t off = 0; off <= l; off++) for (int dir = 0; dir < 2; dir++) {
        size_t tot = l + off + 1;
        char *b = malloc(tot); memset(b, 0, tot);
        char *src = dir ? b + off : b, *dst = dir ? b : b + off;
        memcpy(src, s, l + 1);
        size_t size = tot - (dst - b);
        qstrncpy(dst, size, src, l);
        size_t c = l < size ? l : size - 1;
        if (dst[c] != 0 || strncmp(dst, s, c)) vc_viol("qstrncpy:overlap", "%s offset %zu dir %d gives '%s'", key_, off, dir, dst);
        free(b);
    }
    END();
}
/* ---- tokenizer ---- */
static const char *DEL;
static void t_tok(const char *s) {
    char delhx[32]; vc_hex(delhx, (const unsigned char *)DEL, strlen(DEL));     /* the delimiter set in hex: it may hold bytes that are no text */
    BEGIN("qstrtok", "tok:%s:%s", delhx, hx_);
    char *p = hs(s, 0); int off = 0; char stop; const char *q = s; int done = 0, nf = 0;
    for (;;) {
        stop = 0x7e;
        char *t = qstrtok(p, DEL, &stop, &off);
        if (done) { if (t) vc_viol("qstrtok:extra-field", "%s", key_); break; }
        const char *e = q; while (*e && !strchr(DEL, *e)) e++;
        int last = (*e == 0);
        if (last && e == q) {   /* final empty field: may or may not be reported (documentation is silent) */
            if (t && *t) vc_viol("qstrtok:final-nonempty", "%s", key_);
            if (!t) break;
            done = 1; continue;
        }
        if (!t) { vc_viol("qstrtok:missing-field", "%s field %d", key_, nf); break; }
        if (strlen(t) != (size_t)(e - q) || strncmp(t, q, e - q)) { vc_viol("qstrtok:field-content", "%s field %d is '%s'", key_, nf, t); break; }
        if (t != p + (q - s)) { vc_viol("qstrtok:field-pointer", "%s field %d", key_, nf); break; }
        if (stop != *e) vc_viol("qstrtok:retstop", "%s field %d retstop %02x want %02x", key_, nf, (unsigned char)stop, (unsigned char)*e);
        size_t wantoff = last ? (size_t)(e - s) : (size_t)(e + 1 - s);
        if ((size_t)off != wantoff) vc_viol("qstrtok:offset", "%s field %d offset %d want %zu", key_, nf, off, wantoff);
        nf++;
        if (last) done = 1; else q = e + 1;
    }
    free(p);
    /* qstrtokenizer: same fields as a list */
    vc_label("qstrtokenizer");
    char *src = hs(s, 0);
    qlist_t *L = qstrtokenizer(src, DEL);
    if (!L) vc_viol("qstrtokenizer:null", "%s", key_);
    else {
        q = s; size_t idx = 0; size_t n = L->size(L); int bad = 0;
        for (;;) {
            const char *e = q; while (*e && !strchr(DEL, *e)) e++;
            int last = (*e == 0);
            if (last && e == q) { /* optional final empty field */
                if (idx < n) { size_t sz; char *d = L->getat(L, idx, &sz, false); if (!d || sz != 1 || d[0]) bad = 1; idx++; }
                break;
            }
            size_t sz = 0; char *d = idx < n ? L->getat(L, idx, &sz, false) : NULL;
            if (!d || sz != (size_t)(e - q) + 1 || strncmp(d, q, e - q) || d[e - q]) { bad = 1; break; }
            idx++;
            if (last) break;
            q = e + 1;
        }
        if (bad || idx != n) vc_viol("qstrtokenizer:fields", "%s: list of %zu fields does not match", key_, n);
        if (strcmp(src, s)) vc_viol("qstrtokenizer:modified-source", "%s", key_);
        L->free(L);
    }
    free(src);
    n_nontrivial += nf > 1;
    END();
}
/* ---- line reader ---- */
static void t_gets(const char *s) {
    BEGIN("qstrgets", "gets:%s", hx_);
    for (int size = 2; size <= 9; size++) {
        char *src = hs(s, 0); char *off = src; char *buf = malloc(size); int guard = 0; char out[64]; out[0] = 0;
        while (qstrgets(buf, size, &off) != NULL) {
            if (strlen(buf) >= (size_t)size) { vc_viol("qstrgets:unterminated", "%s size %d", key_, size); break; }
            strcat(out, buf);
            if (++guard > 40) { vc_viol("qstrgets:no-progress", "%s size %d", key_, size); break; }
        }
        if (off < src || off > src + strlen(s)) vc_viol("qstrgets:offset-range", "%s size %d", key_, size);
        char exp[64], *o = exp; for (const char *p = s; *p; p++) if (*p != '\r' && *p != '\n') *o++ = *p; *o = 0;
        if (guard <= 40 && strcmp(out, exp)) vc_viol("qstrgets:content", "%s size %d concatenation '%s'", key_, size, out);
        if (strcmp(src, s)) vc_viol("qstrgets:modified-source", "%s", key_);
        free(buf); free(src);
    }
    {   /* large enough buffer: each call is exactly the next line */
        char *src = hs(s, 0); char *off = src; char *buf = malloc(32); const char *q = s; int ln = 0;
        while (*q) {
            char exp[32], *o = exp; while (*q && *q != '\n') { if (*q != '\r') *o++ = *q; q++; }
            if (*q == '\n') q++;
            *o = 0;
            char *r = qstrgets(buf, 32, &off);
            if (r != buf || strcmp(buf, exp)) { vc_viol("qstrgets:line", "%s line %d is '%s' want '%s'", key_, ln, r ? buf : "(null)", exp); break; }
            if (off != src + (q - s)) { vc_viol("qstrgets:offset", "%s line %d", key_, ln); break; }
            ln++;
        }
        if (!*q && qstrgets(buf, 32, &off) != NULL) vc_viol("qstrgets:extra-line", "%s", key_);
        n_nontrivial += ln > 1;
        free(buf); free(src);
    }
    END();
}
/* ---- rev / upper / lower ---- */
static void t_misc(const char *s) {
    BEGIN("qstrrev", "misc:%s", hx_);
    size_t l = strlen(s);
    char *p = hs(s, 0);
    if (qstrrev(p) != p || strlen(p) != l) vc_viol("qstrrev:value", "%s", key_);
    else for (size_t i = 0; i < l; i++) if (p[i] != s[l - 1 - i]) { vc_viol("qstrrev:value", "%s", key_); break; }
    free(p);
    vc_label("qstrupper");
    p = hs(s, 0); qstrupper(p); int ch = 0;
    for (size_t i = 0; i <= l; i++) { char e = (s[i] >= 'a' && s[i] <= 'z') ? s[i] - 32 : s[i]; ch |= e != s[i]; if (p[i] != e) { vc_viol("qstrupper:value", "%s", key_); break; } }
    free(p);
    vc_label("qstrlower");
    p = hs(s, 0); qstrlower(p);
    for (size_t i = 0; i <= l; i++) { char e = (s[i] >= 'A' && s[i] <= 'Z') ? s[i] + 32 : s[i]; ch |= e != s[i]; if (p[i] != e) { vc_viol("qstrlower:value", "%s", key_); break; } }
    free(p);
    n_nontrivial += ch || l > 1;
    END();
}
/* ---- dup_between / memdup ---- */
static const char *DSTART, *DEND;
static void t_dup(const char *s) {
    BEGIN("qstrdup_between", "dup:%s:%s:%s", DSTART, DEND, hx_);
    char *src = hs(s, 0);
    char *r = qstrdup_between(src, DSTART, DEND);
    const char *a = strstr(s, DSTART), *b = NULL;
    if (a) { a += strlen(DSTART); b = strstr(a, DEND); }
    if ((r != NULL) != (a && b)) vc_viol("qstrdup_between:return", "%s", key_);
    else if (r) { if (strlen(r) != (size_t)(b - a) || strncmp(r, a, b - a)) vc_viol("qstrdup_between:value", "%s gives '%s'", key_, r); n_nontrivial++; }
    free(r);
    vc_label("qmemdup");
    size_t l = strlen(s);
    for (size_t n = 0; n <= l + 1; n++) {
        char *m = qmemdup(src, n);
        if ((m != NULL) != (n > 0)) vc_viol("qmemdup:return", "%s n=%zu", key_, n);
        else if (m) { if (m == src || memcmp(m, src, n)) vc_viol("qmemdup:value", "%s n=%zu", key_, n); m[0] ^= 0x55; if (src[0] != s[0]) vc_viol("qmemdup:aliased", "%s", key_); }
        free(m);
    }
    free(src);
    END();
}

static const char *toks[] = {"a", "b", "ab", "ba", "aa", "bb", "aba", "aab", "abb", "baa", "bab", "bba", "aaa", "bbb"};
static const char *words[] = {"", "a", "b", "x", "ab", "ax", "xa", "xx", "aa", "ba", "abx", "aab", "xab", "aba", "xxx", "bax"};
static const char *dels[] = {":", ":,", ",", "\xa7", ":\xff"};   /* the last two: delimiter bytes above 0x7f (char is signed here) */

/* qstrreplace sizes its result from the product of the operand lengths: operands around 2^16 bytes put that product around 2^32.
 * One token at the end of the source, so the true result stays small; NULL with ENOMEM is accepted (the worst-case buffer is 4 GiB) */
static void t_replbig(void) {
    const size_t LN[] = {65535, 65536, 65537, 46341};      /* 46341^2 > 2^31 */
    for (int mi = 0; mi < 2; mi++) for (int a = 0; a < 4; a++) for (int b = 0; b < 4; b++) {
        if ((LN[a] == 46341) != (LN[b] == 46341)) continue;
        char key[64]; snprintf(key, sizeof key, "replacebig:%s:%zu:%zu", mi ? "sn" : "tn", LN[a], LN[b]);
        if (!vc_case("qstrreplace", key)) continue;
        n_eval++; n_nontrivial++;
        char *src = malloc(LN[a] + 1), *word = malloc(LN[b] + 1);
        memset(src, 'a', LN[a]); src[LN[a] - 1] = 'x'; src[LN[a]] = 0; memset(word, 'w', LN[b]); word[LN[b]] = 0;
        errno = 0; char *r = qstrreplace(mi ? "sn" : "tn", src, "x", word); int e = errno;
        if (!r) { if (e != ENOMEM) vc_viol("qstrreplace:big-null", "%s returned NULL with errno %d", key, e); else vc_stat_add("replacebig_enomem", 1); }
        else {
            size_t want = LN[a] - 1 + LN[b];
            if (strlen(r) != want || memcmp(r, src, LN[a] - 1) || memcmp(r + LN[a] - 1, word, LN[b])) vc_viol("qstrreplace:big-value", "%s: result of %zu bytes, expected %zu bytes ('a'... followed by the word)", key, strlen(r), want);
            free(r);
        }
        free(src); free(word);
        if (vc_asan_check()) vc_viol("asan:string", "%s", key);
        vc_case_end();
    }
    vc_sample("qstrreplace(\"tn\" / \"sn\", 65536-byte source with one token, \"x\", 65536-byte word)");
}

static int replay(const char *key) {
    char part[4][128]; memset(part, 0, sizeof part);
    int np = 0; const char *p = key;
    while (np < 4) { const char *c = strchr(p, ':'); size_t l = c ? (size_t)(c - p) : strlen(p); if (l > 127) l = 127; memcpy(part[np], p, l); part[np][l] = 0; np++; if (!c) break; p = c + 1; }
    char s[64]; unsigned char raw[64]; size_t n;
    if (!strcmp(part[0], "replacebig")) { t_replbig(); return 0; }
    if (!strcmp(part[0], "replace")) { /* TOK:WORD:hex - WORD may be empty */
        static char tk[16], wd[16]; strcpy(tk, part[1]); strcpy(wd, part[2]); TOK = tk; WORD = wd; n = vc_unhex(part[3], raw); memcpy(s, raw, n); s[n] = 0; t_repl(s); return 0;
    }
    if (!strcmp(part[0], "tok")) {  /* DEL may itself contain ':' */
        const char *h = strrchr(key, ':'); static char dl[16]; char dh[32]; size_t l = h - (key + 4); memcpy(dh, key + 4, l); dh[l] = 0; l = vc_unhex(dh, (unsigned char *)dl); dl[l] = 0; DEL = dl; n = vc_unhex(h + 1, raw); memcpy(s, raw, n); s[n] = 0; t_tok(s); return 0;
    }
    if (!strcmp(part[0], "dup")) { static char a[8], b[8]; strcpy(a, part[1]); strcpy(b, part[2]); DSTART = a; DEND = b; n = vc_unhex(part[3], raw); memcpy(s, raw, n); s[n] = 0; t_dup(s); return 0; }
    n = vc_unhex(part[1], raw); memcpy(s, raw, n); s[n] = 0;
    if (!strcmp(part[0], "trim")) t_trim(s); else if (!strcmp(part[0], "unchar")) t_unchar(s); else if (!strcmp(part[0], "copy")) t_copy(s);
    else if (!strcmp(part[0], "gets")) t_gets(s); else if (!strcmp(part[0], "misc")) t_misc(s);
    return 0;
}

static int worker(int argc, char **argv) {
    vc_dirty_bytes = 2048;   /* leaf routines with small frames; millions of cases */
    if (vc_replay_key) return replay(vc_replay_key);
    const char *m = argv[1];
    int thorough = 1, X = (argc > 2 && !strcmp(argv[argc - 1], "thorough")) ? 1 : 0;  /* thorough = one symbol longer */
    if (!strcmp(m, "trim")) { gen(" \t\r\n\va\x80", 7, 7 + X, t_trim); vc_sample("qstrtrim(\" \\t a\\x0b \\r\\n\") (VT must stay)"); }
    else if (!strcmp(m, "unchar")) { gen("\"'a", 3, 7 + X, t_unchar); vc_sample("qstrunchar(\"'a\\\"\", '\\'', '\"')"); }
    else if (!strcmp(m, "replace")) {
        int ti = atoi(argv[2]);
        for (size_t j = 0; j < sizeof words / sizeof words[0]; j++) { TOK = toks[ti]; WORD = words[j]; gen("abc", 3, 7 + X, t_repl); }
        vc_sample("qstrreplace(mode in sn/sr/tn/tr, src over {a,b,c}^<=5, token %s, word in 16 words up to length 3)", toks[ti]);
    }
    else if (!strcmp(m, "replacebig")) t_replbig();
    else if (!strcmp(m, "copy")) { gen("ab\x80", 3, 6 + X, t_copy); vc_sample("qstrncpy(dst[size], size in 1..n+2, src, nbytes in 0..n) and overlapping src/dst"); }
    else if (!strcmp(m, "tok")) { for (int i = 0; i < 3; i++) { DEL = dels[i]; gen("ab:,", 4, 8 + X, t_tok); } for (int i = 3; i < 5; i++) { DEL = dels[i]; gen("a:\xa7\xff", 4, 7 + X, t_tok); } vc_sample("qstrtok(\"a::b,\", \":,\") fields a | '' | b"); }
    else if (!strcmp(m, "gets")) { gen("ab\n\r", 4, 8 + X, t_gets); vc_sample("qstrgets over \"a\\r\\n\\nb\" with size 2..9 and 32"); }
    else if (!strcmp(m, "misc")) { gen("azAZ@[`{\x80\xe0", 10, 5 + X, t_misc); vc_sample("qstrrev/qstrupper/qstrlower(\"aZ@{\\x80\\xe0\")"); }
    else if (!strcmp(m, "dup")) {
        const char *st[] = {"a", "ab", "<"}; const char *en[] = {"b", "a", ">"};
        for (int i = 0; i < 3; i++) for (int j = 0; j < 3; j++) { DSTART = st[i]; DEND = en[j]; gen("ab<>", 4, 7 + X, t_dup); }
        vc_sample("qstrdup_between(\"a<ab>b\", \"<\", \">\"), qmemdup(src, 0..n+1)");
    }
    vc_stat_add("evaluations", n_eval);
    vc_stat_add("nontrivial", n_nontrivial);
    return 0;
}
int main(int argc, char **argv) { return vc_main(argc, argv, worker); }
