/* mtpure.c - re-entrancy of the routines whose properties describe them as functions of their arguments (C16 codecs, C19 string
 * utilities, C17/C20 parsers): two threads, one call each from a menu, every argument in buffers of the calling thread's own.
 *   mtpure <codec|string|parse>
 * The threads run under the E2 scheduler (engines/sched/sched.c); the routines contain no synchronisation, so a program has the
 * schedules "T0 first" and "T1 first" (plus those at read() where a routine reads a file). Oracles: every result equals the
 * result of the same call made alone beforehand (differential); in the tsan flavour - scheduler hand-offs are invisible to the
 * sanitizer - any data race report: a buffer hoisted to file scope, a cached result, a shared cursor is touched by both calls
 * without any ordering, whichever runs first. */
#include "vc.h"
#include <fcntl.h>
#include "../sched/sched.h"
#include "qlibc.h"
#include "qlibcext.h"

ssize_t __real_read(int fd, void *buf, size_t n);
ssize_t __wrap_read(int fd, void *buf, size_t n) { sc_yield(); ssize_t r = __real_read(fd, buf, n); sc_yield(); return r; }

typedef struct { char s[600]; } res_t;
static void radd(res_t *r, const char *fmt, ...) { size_t l = strlen(r->s); va_list ap; va_start(ap, fmt); vsnprintf(r->s + l, sizeof r->s - l, fmt, ap); va_end(ap); }
static void rhex(res_t *r, const void *p, size_t n) { for (size_t i = 0; i < n && i < 120; i++) radd(r, "%02x", ((const unsigned char *)p)[i]); radd(r, "/%zu;", n); }
typedef void (*call_f)(int tid, res_t *r);
typedef struct { const char *label; call_f f; } call_t;

/* every input depends on the thread: the two calls of a program never see equal bytes */
static void mkbin(int tid, unsigned char *b, size_t n) { for (size_t i = 0; i < n; i++) b[i] = (unsigned char)(i * 29 + 17 + 83 * tid + (i % 5 == 0 ? 0x80 : 0)); }
static char *mkstr(int tid, const char *base) { char *s = malloc(strlen(base) + 8); sprintf(s, "%s%c", base, 'p' + tid); return s; }

/* ---- codecs (C16) */
static void c_urlenc(int t, res_t *r) { unsigned char b[70]; mkbin(t, b, sizeof b); char *e = qurl_encode(b, sizeof b); radd(r, "%s", e ? e : "NULL"); free(e); }
static void c_urldec(int t, res_t *r) { char *s = mkstr(t, "a%20b+c%2Bd%7e%zz%4"); size_t n = qurl_decode(s); rhex(r, s, n); free(s); }
static void c_b64enc(int t, res_t *r) { unsigned char b[71]; mkbin(t, b, sizeof b); char *e = qbase64_encode(b, sizeof b); radd(r, "%s", e ? e : "NULL"); free(e); }
static void c_b64dec(int t, res_t *r) { char *s = mkstr(t, "aGVsbG8gd29ybGQhIQ=="); s[strlen(s) - 1] = t ? 'A' : 'B'; size_t n = qbase64_decode(s); rhex(r, s, n); free(s); }
static void c_hexenc(int t, res_t *r) { unsigned char b[33]; mkbin(t, b, sizeof b); char *e = qhex_encode(b, sizeof b); radd(r, "%s", e ? e : "NULL"); free(e); }
static void c_hexdec(int t, res_t *r) { char *s = mkstr(t, "00ff10aB7f"); s[strlen(s) - 1] = '0' + t; size_t n = qhex_decode(s); rhex(r, s, n); free(s); }
static void c_query(int t, res_t *r) {
    char *q = mkstr(t, "name=a%20b&x=1+2&empty=&=v&k%3d=%26&last=");
    int cnt = -1; qlisttbl_t *tbl = qparse_queries(NULL, q, '=', '&', &cnt); radd(r, "cnt=%d:", cnt);
    if (tbl) { qlisttbl_obj_t o; memset(&o, 0, sizeof o); while (tbl->getnext(tbl, &o, NULL, false)) radd(r, "[%s=%s]", o.name, (char *)o.data); tbl->free(tbl); }
    free(q);
}
static call_t CODEC[] = {{"qurl_encode", c_urlenc}, {"qurl_decode", c_urldec}, {"qbase64_encode", c_b64enc}, {"qbase64_decode", c_b64dec}, {"qhex_encode", c_hexenc}, {"qhex_decode", c_hexdec}, {"qparse_queries", c_query}};

/* ---- string utilities (C19) */
static void s_trim(int t, res_t *r) { char *s = mkstr(t, " \t\r\n ab c \t\n"); radd(r, "[%s]", qstrtrim(s)); free(s); }
static void s_trimh(int t, res_t *r) { char *s = mkstr(t, " \t ab "); radd(r, "[%s]", qstrtrim_head(s)); free(s); }
static void s_trimt(int t, res_t *r) { char *s = mkstr(t, " ab \t"); s[strlen(s) - 1] = ' '; radd(r, "[%s]%d", qstrtrim_tail(s), t); free(s); }
static void s_unchar(int t, res_t *r) { char *s = mkstr(t, "\"quoted"); s[strlen(s) - 1] = '"'; radd(r, "[%s]%d", qstrunchar(s, '"', '"'), t); free(s); }
static void s_repl_sn(int t, res_t *r) { char *s = mkstr(t, "abcabcab"); char *o = qstrreplace("sn", s, "ab", t ? "XYZ" : "Q"); radd(r, "[%s]", o ? o : "NULL"); free(o); free(s); }
static void s_repl_sr(int t, res_t *r) { char *s = malloc(64); sprintf(s, "abcabcab%d", t); char *o = qstrreplace("sr", s, "bc", t ? "-" : "+"); radd(r, "[%s]%d", s, o == s); free(s); }
static void s_repl_tn(int t, res_t *r) { char *s = mkstr(t, "a.b,c.d"); char *o = qstrreplace("tn", s, ".,", t ? "__" : "-"); radd(r, "[%s]", o ? o : "NULL"); free(o); free(s); }
static void s_repl_tr(int t, res_t *r) { char *s = mkstr(t, "a.b,c.d"); char *o = qstrreplace("tr", s, ".,", t ? "_" : "-"); radd(r, "[%s]%d", s, o == s); free(s); }
static void s_cpy(int t, res_t *r) { char d[12]; char *s = mkstr(t, "0123456789abcdef"); qstrcpy(d, sizeof d, s + t); radd(r, "[%s]", d); qstrncpy(d, sizeof d, s, 5 + t); radd(r, "[%s]", d); free(s); }
static void s_dupf(int t, res_t *r) { char *o = qstrdupf("%d-%s-%05d", t, t ? "one" : "zero", 42 + t); radd(r, "[%s]", o ? o : "NULL"); free(o); }
static void s_between(int t, res_t *r) { char *s = mkstr(t, "xx<tag>inner</tag>yy"); char *o = qstrdup_between(s, "<tag>", "</tag>"); radd(r, "[%s]%d", o ? o : "NULL", t); free(o); free(s); }
static void s_memdup(int t, res_t *r) { unsigned char b[40]; mkbin(t, b, sizeof b); void *o = qmemdup(b, sizeof b); if (o) rhex(r, o, sizeof b); free(o); }
static void s_catf(int t, res_t *r) { char b[64]; sprintf(b, "t%d:", t); qstrcatf(b, "%s=%d;", "v", 7 + t); qstrcatf(b, "%c", 'x' + t); radd(r, "[%s]", b); }
static void s_gets(int t, res_t *r) { char *s = mkstr(t, "line1\r\nline2\n\nlast"); char *off = s; char b[32]; while (qstrgets(b, sizeof b, &off)) radd(r, "[%s]", b); free(s); }
static void s_rev(int t, res_t *r) { char *s = mkstr(t, "abcdef"); radd(r, "[%s]", qstrrev(s)); free(s); }
static void s_upper(int t, res_t *r) { char *s = mkstr(t, "aZ@[`{\x80m"); radd(r, "[%s]", qstrupper(s)); free(s); }
static void s_lower(int t, res_t *r) { char *s = mkstr(t, "aZ@[`{\x80M"); radd(r, "[%s]", qstrlower(s)); free(s); }
static void s_tok(int t, res_t *r) { char *s = mkstr(t, "a:b,,c:"); int off = 0; char stop; char *tk; while ((tk = qstrtok(s, ":,", &stop, &off)) != NULL) radd(r, "[%s|%d]", tk, stop); free(s); }
static void s_tokenizer(int t, res_t *r) { char *s = mkstr(t, "x:y,,z"); qlist_t *l = qstrtokenizer(s, ":,"); if (l) { qlist_obj_t o; memset(&o, 0, sizeof o); while (l->getnext(l, &o, false)) radd(r, "[%s]", (char *)o.data); l->free(l); } free(s); }
static void s_comma(int t, res_t *r) { char *o = qstr_comma_number(1234567 + 1000 * t); radd(r, "[%s]", o ? o : "NULL"); free(o); }
static call_t STRING[] = {{"qstrtrim", s_trim}, {"qstrtrim_head", s_trimh}, {"qstrtrim_tail", s_trimt}, {"qstrunchar", s_unchar}, {"qstrreplace", s_repl_sn}, {"qstrreplace", s_repl_sr}, {"qstrreplace", s_repl_tn}, {"qstrreplace", s_repl_tr},
                          {"qstrcpy", s_cpy}, {"qstrdupf", s_dupf}, {"qstrdup_between", s_between}, {"qmemdup", s_memdup}, {"qstrcatf", s_catf}, {"qstrgets", s_gets}, {"qstrrev", s_rev}, {"qstrupper", s_upper}, {"qstrlower", s_lower},
                          {"qstrtok", s_tok}, {"qstrtokenizer", s_tokenizer}, {"qstr_comma_number", s_comma}};

/* ---- parsers (C17, C20) */
static char P_DIR[256];
static void p_write(const char *path, const char *text) { int fd = open(path, O_WRONLY | O_CREAT | O_TRUNC, 0600); if (fd >= 0) { if (write(fd, text, strlen(text)) < 0) {} close(fd); } }
static void dump_tbl(qlisttbl_t *tbl, res_t *r) { if (!tbl) { radd(r, "NULL"); return; } qlisttbl_obj_t o; memset(&o, 0, sizeof o); while (tbl->getnext(tbl, &o, NULL, false)) radd(r, "[%s=%s]", o.name, (char *)o.data); }
static void p_inistr(int t, res_t *r) { char txt[200]; sprintf(txt, "# c\nroot = r%d\n[sec]\nk = v ${root} ${sec.k2}\nk2: two%d\nk3 = ${sec.k2}${root}\n[t]\nx=${%%NOPE}\n", t, t); qlisttbl_t *tbl = qconfig_parse_str(NULL, txt, '='); dump_tbl(tbl, r); if (tbl) tbl->free(tbl); }
static void p_inifile(int t, res_t *r) {
    char path[300], inc[300], txt[700]; snprintf(path, sizeof path, "%s/mt_ini_%d.conf", P_DIR, t); snprintf(inc, sizeof inc, "%s/mt_inc_%d.conf", P_DIR, t);
    char body[64]; sprintf(body, "inc = i%d\n", t); p_write(inc, body);
    snprintf(txt, sizeof txt, "a = %d\n@INCLUDE %s\nb = ${a}${inc}\n", t, inc); p_write(path, txt);
    qlisttbl_t *tbl = qconfig_parse_file(NULL, path, '='); dump_tbl(tbl, r); if (tbl) tbl->free(tbl);
}
static __thread res_t *ac_out;
static QAC_CB(ac_cb) { (void)userdata; radd(ac_out, "{%d:%d:", (int)data->otype, data->level); for (int i = 0; i < data->argc; i++) radd(ac_out, "%s,", data->argv[i]); radd(ac_out, "}"); return NULL; }
static void p_apache(int t, res_t *r) {
    char path[300], txt[400]; snprintf(path, sizeof path, "%s/mt_ac_%d.conf", P_DIR, t);
    sprintf(txt, "# comment\nListen %d\nName \"quoted arg %d\" 'single q' back\\\\slash\n<Host h%d>\n  Flag On\n  <Dir /d%d>\n    Listen 1%d\n  </Dir>\n</Host>\nFlag off\n", 80 + t, t, t, t, t); p_write(path, txt);
    qaconf_t *c = qaconf();
    qaconf_option_t o[] = {{"Listen", QAC_TAKE_INT, ac_cb, 0, QAC_SECTION_ALL}, {"Name", QAC_TAKEALL, ac_cb, 0, QAC_SECTION_ALL}, {"Flag", QAC_TAKE_BOOL, ac_cb, 0, QAC_SECTION_ALL},
                           {"Host", QAC_TAKE1, ac_cb, 1, QAC_SECTION_ALL}, {"Dir", QAC_TAKE1, ac_cb, 2, 1}, QAC_OPTION_END};
    c->addoptions(c, o); ac_out = r;
    int n = c->parse(c, path, t ? QAC_CASEINSENSITIVE : 0); radd(r, "=%d %s", n, n < 0 && c->errmsg(c) ? c->errmsg(c) : ""); c->free(c);
}
static void p_apache_err(int t, res_t *r) {
    char path[300], txt[200]; snprintf(path, sizeof path, "%s/mt_ace_%d.conf", P_DIR, t);
    sprintf(txt, "Listen %d\n\nListen notanumber%d\n", t, t); p_write(path, txt);
    qaconf_t *c = qaconf(); qaconf_option_t o[] = {{"Listen", QAC_TAKE_INT, ac_cb, 0, QAC_SECTION_ALL}, QAC_OPTION_END};
    c->addoptions(c, o); ac_out = r; int n = c->parse(c, path, 0); const char *e = c->errmsg(c); const char *b = e ? strrchr(e, '/') : NULL; radd(r, "=%d %s", n, b ? b : e ? e : "-"); c->free(c);
}
static call_t PARSE[] = {{"qconfig_parse_str", p_inistr}, {"qconfig_parse_file", p_inifile}, {"qaconf_parse", p_apache}, {"qaconf_parse", p_apache_err}, {"qparse_queries", c_query}};

static call_t *MENU; static int NMENU; static const char *FAM;
static res_t REF[2][32], RES[2]; static int PROG[2];
static volatile int tsan_reports;
#ifdef VC_TSAN
void __tsan_on_report(void *rep) { (void)rep; tsan_reports++; }
#endif
static void body(int tid) { memset(&RES[tid], 0, sizeof RES[tid]); MENU[PROG[tid]].f(tid, &RES[tid]); }
static long n_exec, n_programs, n_maxsched, n_sched_this;
static void run_one(void) {
    char key[VC_KEYMAX], *k = key; k += sprintf(k, "mtpure:%s:%d:%d:", FAM, PROG[0], PROG[1]); for (int i = 0; i < sc_nprefix; i++) k += sprintf(k, "%d", sc_prefix[i]);
    if (!vc_case(MENU[PROG[0]].label, key)) { sc_np = 0; return; }
    n_exec++;
    int t0 = tsan_reports;
    sc_run(2, body);
    { char *q = key; q += sprintf(q, "mtpure:%s:%d:%d:", FAM, PROG[0], PROG[1]); for (int i = 0; i < sc_np && i < 200; i++) q += sprintf(q, "%d", sc_choice[i]); snprintf(vc_sh->key, VC_KEYMAX, "%s", key); }
    if (sc_diverged) vc_stat_add("replay_divergence", 1);
    char cls[96];
    if (sc_deadlock || sc_livelock || sc_overflow) { snprintf(cls, sizeof cls, "mt:stuck:%s", MENU[PROG[0]].label); vc_viol(cls, "%s: the two calls never finish", key); vc_case_end(); return; }
    for (int t = 0; t < 2; t++) if (strcmp(RES[t].s, REF[t][PROG[t]].s)) {
        snprintf(cls, sizeof cls, "mt:result:%s", MENU[PROG[t]].label);
        vc_viol(cls, "%s: %s in thread %d returned [%.100s] while %s ran in the other thread; alone it returns [%.100s]", key, MENU[PROG[t]].label, t, RES[t].s, MENU[PROG[1 - t]].label, REF[t][PROG[t]].s);
    }
    if (tsan_reports != t0) { snprintf(cls, sizeof cls, "mt:data-race:%s", MENU[PROG[0]].label); vc_viol(cls, "%s: thread sanitizer reported a data race between %s and %s (arguments are private to each thread)", key, MENU[PROG[0]].label, MENU[PROG[1]].label); }
#ifdef VC_ASAN
    { const char *a = vc_asan_check(); if (a) { snprintf(cls, sizeof cls, "asan:%s:%s", a, MENU[PROG[0]].label); vc_viol(cls, "%s: sanitizer report", key); } }
#endif
    vc_case_end();
}
static void explore(const int *prefix, int nprefix, int PB) {
    memcpy(sc_prefix, prefix, sizeof(int) * nprefix); sc_nprefix = nprefix;
    run_one(); n_sched_this++;
    int np = sc_np; if (np == 0) return;
    int *choice = malloc(sizeof(int) * np), *nen = malloc(sizeof(int) * np), *curen = malloc(sizeof(int) * np);
    memcpy(choice, sc_choice, sizeof(int) * np); memcpy(nen, sc_nen, sizeof(int) * np); memcpy(curen, sc_cur_en, sizeof(int) * np);
    int cost = 0; for (int i = 0; i < nprefix && i < np; i++) if (choice[i] != 0 && curen[i]) cost++;
    for (int i = nprefix; i < np; i++) if (cost + (curen[i] ? 1 : 0) <= PB) for (int alt = 1; alt < nen[i]; alt++) {
        int *p2 = malloc(sizeof(int) * (i + 1)); memcpy(p2, choice, sizeof(int) * i); p2[i] = alt;
        explore(p2, i + 1, PB); free(p2);
        if (vc_deadline_hit()) break;
    }
    free(choice); free(nen); free(curen);
}
static int setup(const char *fam) {
    FAM = fam;
    if (!strcmp(fam, "codec")) { MENU = CODEC; NMENU = sizeof CODEC / sizeof CODEC[0]; }
    else if (!strcmp(fam, "string")) { MENU = STRING; NMENU = sizeof STRING / sizeof STRING[0]; }
    else if (!strcmp(fam, "parse")) { MENU = PARSE; NMENU = sizeof PARSE / sizeof PARSE[0]; }
    else return 1;
    snprintf(P_DIR, sizeof P_DIR, "%s/mtpure_%d", getenv("TMPDIR") ? getenv("TMPDIR") : "/tmp", (int)getpid()); mkdir(P_DIR, 0700);
    unsetenv("NOPE");
    for (int t = 0; t < 2; t++) for (int c = 0; c < NMENU; c++) { memset(&REF[t][c], 0, sizeof REF[t][c]); MENU[c].f(t, &REF[t][c]); }
    return 0;
}
static void cleanup(void) { char cmd[400]; snprintf(cmd, sizeof cmd, "rm -rf '%s'", P_DIR); if (system(cmd)) {} }
static int worker(int argc, char **argv) {
    vc_hang_ticks = 20;
    if (vc_replay_key) {
        char fam[32]; int off = 0; if (sscanf(vc_replay_key, "mtpure:%31[^:]:%d:%d:%n", fam, &PROG[0], &PROG[1], &off) < 3 || setup(fam)) return 1;
        int prefix[SC_MAXP], n = 0; for (const char *p = vc_replay_key + off; *p >= '0' && *p <= '9' && n < SC_MAXP; p++) prefix[n++] = *p - '0';
        memcpy(sc_prefix, prefix, sizeof(int) * n); sc_nprefix = n; run_one(); res_t a0 = RES[0], a1 = RES[1];
        memcpy(sc_prefix, prefix, sizeof(int) * n); sc_nprefix = n; run_one();
        printf("NOTE\tT0 %s -> %.200s\nNOTE\tT1 %s -> %.200s\n", MENU[PROG[0]].label, RES[0].s, MENU[PROG[1]].label, RES[1].s);
        if (strcmp(a0.s, RES[0].s) || strcmp(a1.s, RES[1].s)) printf("NOTE\tREPLAY NOT DETERMINISTIC\n");
        cleanup(); return 0;
    }
    if (argc < 2 || setup(argv[1])) return 1;
    int PB = argc > 2 ? atoi(argv[2]) : 2;
    for (int a = 0; a < NMENU; a++) for (int b = 0; b < NMENU; b++) {
        if (vc_deadline_hit()) break;
        PROG[0] = a; PROG[1] = b; n_sched_this = 0;
        explore(NULL, 0, PB);
        n_programs++; if (n_sched_this > n_maxsched) n_maxsched = n_sched_this;
    }
    cleanup();
    vc_stat_add("evaluations", n_exec); vc_stat_add("nontrivial", n_exec); vc_stat_add("mt_programs", n_programs); vc_stat_add("mt_executions", n_exec); vc_stat_add("mt_max_schedules_per_program", n_maxsched); vc_stat_add("mt_tsan_reports", tsan_reports);
    vc_sample("two threads, T0: %s | T1: %s on private arguments: %ld schedules; results equal the results of the calls made alone; no data race report", MENU[0].label, MENU[NMENU - 1].label, n_maxsched);
    return 0;
}
int main(int argc, char **argv) { return vc_main(argc, argv, worker); }
