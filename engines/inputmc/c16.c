/* C16 - encoders/decoders are exact inverses and emit the standard formats.
 * Bounded-exhaustive enumeration of byte strings; every case is a real call into /repo.
 *   c16 codec <len> <lo> <hi>    all strings of length len over 0..255 whose first byte is in [lo,hi)
 *   c16 alpha <lenlo> <lenhi> <alphabet-id> <shard> <nshards>
 *   c16 accept                   decoder acceptance (%hh in all digit cases, '+', hex pairs)
 *   c16 query <mode> <shard> <nshards>
 */
#include "vc.h"
#include <ctype.h>
#include "qlibc.h"

static const char B64[] = "ABCDEFGHIJKLMNOPQRSTUVWXYZabcdefghijklmnopqrstuvwxyz0123456789+/";
static long n_eval, n_nontrivial;

static int url_must_escape(unsigned char c) {
    return c <= 0x20 || c >= 0x7f || strchr("%+&=?#\"<>", c) != NULL;
}
static int hexval(int c) {
    if (c >= '0' && c <= '9') return c - '0';
    if (c >= 'a' && c <= 'f') return c - 'a' + 10;
    if (c >= 'A' && c <= 'F') return c - 'A' + 10;
    return -1;
}

/* one string through the three codecs */
static void one(const unsigned char *in, size_t len) {
    char key[64 + 2 * 16];
    char *k = key; k += sprintf(k, "codec:"); vc_hex(k, in, len);
    if (!vc_case("codec", key)) return;
    n_eval++;
    unsigned char *src = malloc(len ? len : 1);     /* exactly sized caller buffer */
    memcpy(src, in, len);
    int nontrivial = (len % 3) != 0;

    /* ---- URL ---- */
    vc_label("qurl_encode");
    char *u = qurl_encode(src, len);
    if (!u) vc_viol("url:encode-null", "qurl_encode returned NULL");
    else {
        const char *p = u; int bad = 0;
        for (size_t i = 0; i < len && !bad; i++) {
            unsigned char c = src[i];
            if (*p == '%') {
                int h = hexval((unsigned char)p[1]), l = h < 0 ? -1 : hexval((unsigned char)p[2]);
                if (h < 0 || l < 0 || (unsigned)(h * 16 + l) != c) { vc_viol("url:bad-escape", "escape %.3s does not denote byte %02x", p, c); bad = 1; }
                p += 3; nontrivial = 1;
            } else {
                if ((unsigned char)*p != c) { vc_viol("url:literal-differs", "literal %02x for input byte %02x", (unsigned char)*p, c); bad = 1; }
                else if (url_must_escape(c)) { vc_viol("url:unsafe-literal", "byte %02x emitted literally", c); bad = 1; }
                p++;
            }
        }
        if (!bad && *p) vc_viol("url:trailing", "trailing output after %zu input bytes", len);
        vc_label("qurl_decode");
        size_t dl = qurl_decode(u);
        if (dl != len || memcmp(u, src, len) || u[len] != 0) vc_viol("url:roundtrip", "decode(encode(x)) != x (len %zu -> %zu)", len, dl);
        free(u);
    }
    /* ---- Base64 ---- */
    vc_label("qbase64_encode");
    char *b = qbase64_encode(src, len);
    if (!b) vc_viol("b64:encode-null", "qbase64_encode returned NULL");
    else {
        char e[64]; int o = 0;
        for (size_t i = 0; i < len; i += 3) {
            unsigned v = src[i] << 16; if (i + 1 < len) v |= src[i + 1] << 8; if (i + 2 < len) v |= src[i + 2];
            e[o++] = B64[(v >> 18) & 63]; e[o++] = B64[(v >> 12) & 63];
            e[o++] = i + 1 < len ? B64[(v >> 6) & 63] : '='; e[o++] = i + 2 < len ? B64[v & 63] : '=';
        }
        e[o] = 0;
        if (strlen(b) != 4 * ((len + 2) / 3)) vc_viol("b64:length", "output length %zu for %zu input bytes", strlen(b), len);
        else if (strcmp(e, b)) vc_viol("b64:content", "got %s want %s", b, e);
        vc_label("qbase64_decode");
        size_t dl = qbase64_decode(b);
        if (dl != len || memcmp(b, src, len) || b[len] != 0) vc_viol("b64:roundtrip", "decode(encode(x)) != x (len %zu -> %zu)", len, dl);
        free(b);
    }
    /* ---- hex ---- */
    vc_label("qhex_encode");
    char *h = qhex_encode(src, len);
    if (!h) vc_viol("hex:encode-null", "qhex_encode returned NULL");
    else {
        char e[64];
        for (size_t i = 0; i < len; i++) { e[2 * i] = vc_hexd[src[i] >> 4]; e[2 * i + 1] = vc_hexd[src[i] & 15]; }
        e[2 * len] = 0;
        if (strcmp(h, e)) vc_viol("hex:content", "got %s want %s", h, e);
        vc_label("qhex_decode");
        size_t dl = qhex_decode(h);
        if (dl != len || memcmp(h, src, len) || h[len] != 0) vc_viol("hex:roundtrip", "decode(encode(x)) != x (len %zu -> %zu)", len, dl);
        free(h);
    }
    free(src);
    const char *a = vc_asan_check();
    if (a) vc_viol("asan:codec", "sanitizer report %s", a);
    n_nontrivial += nontrivial;
    vc_case_end();
}

static void run_codec(int len, int lo, int hi) {
    unsigned char in[8];
    if (len == 0) { if (lo == 0) one(in, 0); return; }
    long tail = 1; for (int i = 1; i < len; i++) tail *= 256;
    for (int f = lo; f < hi; f++) for (long x = 0; x < tail; x++) {
        in[0] = f; long y = x; for (int i = 1; i < len; i++) { in[i] = y & 255; y >>= 8; }
        one(in, len);
        if ((x & 0xffff) == 0 && vc_deadline_hit()) return;
    }
    in[0] = lo; for (int i = 1; i < len; i++) in[i] = (unsigned char)(0x80 + i);
    char hx[32]; vc_hex(hx, in, len); vc_sample("codec input (hex) %s", hx);
}

static const unsigned char ALPHA40[] = {0x00, 0x01, 0x09, 0x0a, 0x0d, 0x1f, ' ', '!', '"', '#', '$', '%', '&', '\'', '+', ',', '-', '.', '/', '0', '9', ':', ';', '<', '=', '>', '?', '@', 'A', 'Z', '[', '\\', '_', 'a', 'z', '{', '~', 0x7f, 0x80, 0xff};
static const unsigned char ALPHA4[] = {0x00, 0xff, 'a', '%'};
static void run_alpha(int lenlo, int lenhi, int aid, long shard, long nshards) {
    const unsigned char *A = aid == 40 ? ALPHA40 : ALPHA4; int na = aid == 40 ? 40 : 4;
    unsigned char in[16];
    for (int len = lenlo; len <= lenhi; len++) {
        long tot = 1; for (int i = 0; i < len; i++) tot *= na;
        for (long x = shard; x < tot; x += nshards) {
            long y = x; for (int i = 0; i < len; i++) { in[i] = A[y % na]; y /= na; }
            one(in, len);
            if ((x & 0xfffff) == shard && vc_deadline_hit()) return;
        }
    }
    char hx[40]; vc_hex(hx, in, lenhi); vc_sample("codec input (hex) %s", hx);
}

static void run_accept(void) {
    for (int c = 0; c < 256; c++) for (int cs = 0; cs < 4; cs++) {
        char s[8];
        int hi = vc_hexd[c >> 4], lo = vc_hexd[c & 15];
        if (cs & 1) hi = toupper(hi);
        if (cs & 2) lo = toupper(lo);
        snprintf(s, sizeof s, "%%%c%c", hi, lo);
        char key[32]; snprintf(key, sizeof key, "accept:%s", s);
        if (!vc_case("qurl_decode", key)) continue;
        n_eval++; n_nontrivial++;
        char *p = strdup(s); size_t l = qurl_decode(p);
        if (l != 1 || (unsigned char)p[0] != c || p[1] != 0) vc_viol("url:decode-case", "%s decodes to len %zu byte %02x", s, l, (unsigned char)p[0]);
        free(p);
        vc_label("qhex_decode");
        char *q = strdup(s + 1); l = qhex_decode(q);
        if (l != 1 || (unsigned char)q[0] != c || q[1] != 0) vc_viol("hex:decode-case", "%s decodes to len %zu byte %02x", s + 1, l, (unsigned char)q[0]);
        free(q);
        if (vc_asan_check()) vc_viol("asan:accept", "sanitizer report");
        vc_case_end();
    }
    /* '+' means space, anywhere; a %hh next to literals */
    const char *plus[][2] = {{"a+b", "a b"}, {"+", " "}, {"++", "  "}, {"+a", " a"}, {"a+", "a "}, {"%41+%42", "A B"}, {"x%2Bx", "x+x"}, {"%25", "%"}, {"a%20b", "a b"}};
    for (size_t i = 0; i < sizeof plus / sizeof plus[0]; i++) {
        char key[48]; snprintf(key, sizeof key, "accept:%s", plus[i][0]);
        if (!vc_case("qurl_decode", key)) continue;
        n_eval++; n_nontrivial++;
        char *p = strdup(plus[i][0]); size_t l = qurl_decode(p);
        if (l != strlen(plus[i][1]) || strcmp(p, plus[i][1])) vc_viol("url:decode-plus", "%s decodes to '%s'", plus[i][0], p);
        free(p);
        vc_case_end();
    }
    vc_sample("acceptance %%4a %%4A %%4a->J ; a+b -> 'a b'");
}

/* ---- query strings ---- */
static const char QA[] = {'a', ' ', '&', '=', '%', '+', '\n', (char)0x80};
static char QS[80][3]; static int nqs, nqs1;
static void mkqs(void) {
    QS[nqs++][0] = 0;
    for (int i = 0; i < 8; i++) { QS[nqs][0] = QA[i]; QS[nqs][1] = 0; nqs++; }
    nqs1 = nqs;
    for (int i = 0; i < 8; i++) for (int j = 0; j < 8; j++) { QS[nqs][0] = QA[i]; QS[nqs][1] = QA[j]; QS[nqs][2] = 0; nqs++; }
}
static void query_case(int np, const int *nm, const int *vl, int forward) {
    char q[256], key[128]; q[0] = 0;
    char *k = key; k += sprintf(k, "query:%d:%d", forward, np);
    for (int i = 0; i < np; i++) k += sprintf(k, ":%d,%d", nm[i], vl[i]);
    if (!vc_case("qparse_queries", key)) return;
    n_eval++;
    for (int i = 0; i < np; i++) {
        char *e1 = qurl_encode(QS[nm[i]], strlen(QS[nm[i]])), *e2 = qurl_encode(QS[vl[i]], strlen(QS[vl[i]]));
        if (i) strcat(q, "&");
        strcat(q, e1); strcat(q, "="); strcat(q, e2);
        free(e1); free(e2);
    }
    char *qq = strdup(q);   /* exactly sized */
    int cnt = -1;
    qlisttbl_t *given = forward ? qlisttbl(QLISTTBL_LOOKUPFORWARD) : NULL;
    qlisttbl_t *t = qparse_queries(given, qq, '=', '&', &cnt);
    if (!t) { vc_viol("query:null", "qparse_queries returned NULL for [%s]", q); free(qq); vc_case_end(); return; }
    if (cnt != np || (int)t->size(t) != np) vc_viol("query:count", "[%s]: count %d size %zu, want %d", q, cnt, t->size(t), np);
    else {
        /* entries in order: walk the public list links */
        qlisttbl_obj_t *o = t->first; int i = 0;
        for (; o && i < np; o = o->next, i++) {
            const char *wn = QS[nm[i]], *wv = QS[vl[i]];
            if (strcmp(o->name, wn) || o->size != strlen(wv) + 1 || strcmp(o->data, wv)) { vc_viol("query:pair", "[%s]: pair %d is [%s]=[%s]", q, i, o->name, (char *)o->data); break; }
        }
        if (o || i != np) { if (i == np) vc_viol("query:pair", "[%s]: extra entries", q); }
        /* and through the API in lookup direction */
        qlisttbl_obj_t ob; memset(&ob, 0, sizeof ob); int j = 0;
        while (t->getnext(t, &ob, NULL, false)) {
            int idx = forward ? j : np - 1 - j;
            if (idx < 0 || idx >= np || strcmp(ob.name, QS[nm[idx]]) || strcmp(ob.data, QS[vl[idx]])) { vc_viol("query:walk", "[%s]: walk step %d wrong", q, j); break; }
            j++;
        }
    }
    t->free(t); free(qq);
    if (vc_asan_check()) vc_viol("asan:query", "sanitizer report on [%s]", q);
    n_nontrivial += np > 0;
    vc_case_end();
}
/* mode 1: 0..1 pairs full; 2 pairs: (full,short) and (short,full); mode 2: 2 pairs full; mode 3: 3 pairs short */
static void run_query(int mode, long shard, long nshards) {
    mkqs();
    int nm[3], vl[3]; long idx = 0;
    if (mode == 1) {
        if (shard == 0) query_case(0, nm, vl, 0), query_case(0, nm, vl, 1);
        for (nm[0] = 0; nm[0] < nqs; nm[0]++) for (vl[0] = 0; vl[0] < nqs; vl[0]++) {
            if (idx++ % nshards != shard) continue;
            query_case(1, nm, vl, idx & 1);
            for (nm[1] = 0; nm[1] < nqs1; nm[1]++) for (vl[1] = 0; vl[1] < nqs1; vl[1]++) {
                query_case(2, nm, vl, (nm[1] + vl[1]) & 1);
                int n2[2] = {nm[1], nm[0]}, v2[2] = {vl[1], vl[0]};
                query_case(2, n2, v2, (nm[1] + vl[1] + 1) & 1);
            }
        }
    } else if (mode == 2) {
        for (nm[0] = 0; nm[0] < nqs; nm[0]++) for (vl[0] = 0; vl[0] < nqs; vl[0]++) {
            if (idx++ % nshards != shard) continue;
            if (vc_deadline_hit()) return;
            for (nm[1] = 0; nm[1] < nqs; nm[1]++) for (vl[1] = 0; vl[1] < nqs; vl[1]++) query_case(2, nm, vl, (nm[1] ^ vl[1]) & 1);
        }
    } else {
        for (nm[0] = 0; nm[0] < nqs1; nm[0]++) for (vl[0] = 0; vl[0] < nqs1; vl[0]++) {
            if (idx++ % nshards != shard) continue;
            for (nm[1] = 0; nm[1] < nqs1; nm[1]++) for (vl[1] = 0; vl[1] < nqs1; vl[1]++)
                for (nm[2] = 0; nm[2] < nqs1; nm[2]++) for (vl[2] = 0; vl[2] < nqs1; vl[2]++) query_case(3, nm, vl, (nm[2] ^ vl[1]) & 1);
        }
    }
    vc_sample("query list e.g. names/values over {a,SP,&,=,%%,+,LF,0x80}^{0..2}: '%%26=%%3D%%20&a=' -> [(&,= ),(a,)]");
}

static int replay(const char *key) {
    if (!strncmp(key, "codec:", 6)) { unsigned char in[64]; size_t n = vc_unhex(key + 6, in); one(in, n); }
    else if (!strncmp(key, "accept:", 7)) run_accept();
    else if (!strncmp(key, "query:", 6)) {
        mkqs(); int fw, np, nm[3], vl[3]; const char *p = key + 6; int off;
        sscanf(p, "%d:%d%n", &fw, &np, &off); p += off;
        for (int i = 0; i < np; i++) { sscanf(p, ":%d,%d%n", &nm[i], &vl[i], &off); p += off; }
        query_case(np, nm, vl, fw);
    }
    return 0;
}

static int worker(int argc, char **argv) {
    vc_dirty_bytes = 2048;   /* leaf routines with small frames; millions of cases */
    if (vc_replay_key) return replay(vc_replay_key);
    if (argc < 2) return 1;
    if (!strcmp(argv[1], "codec")) run_codec(atoi(argv[2]), atoi(argv[3]), atoi(argv[4]));
    else if (!strcmp(argv[1], "alpha")) run_alpha(atoi(argv[2]), atoi(argv[3]), atoi(argv[4]), atol(argv[5]), atol(argv[6]));
    else if (!strcmp(argv[1], "accept")) run_accept();
    else if (!strcmp(argv[1], "query")) run_query(atoi(argv[2]), atol(argv[3]), atol(argv[4]));
    vc_stat_add("evaluations", n_eval);
    vc_stat_add("nontrivial", n_nontrivial);
    return 0;
}
int main(int argc, char **argv) { return vc_main(argc, argv, worker); }
