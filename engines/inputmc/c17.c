/* C17 - decoders and parsers are memory-safe and terminate on arbitrary input.
 * Every sequence of <= L tokens over an alphabet of the syntactically significant tokens of a format,
 * each as a NUL-terminated string in an exactly sized heap block.  Oracle: no sanitizer report, no crash,
 * no hang (deterministic allocation budget, CPU watchdog as backstop), decoders never grow the string.
 *   c17 <family> <maxtokens> <shard> <nshards>
 *   families: url b64 hex query ini inifile apache0 apache3 longline
 */
#include "vc.h"
#include <fcntl.h>
#include <sys/stat.h>
#include "qlibc.h"
#include "qlibcext.h"

static long n_eval, n_nontrivial;
FILE *__wrap_popen(const char *c, const char *m) { (void)c; (void)m; errno = ENOSYS; return NULL; }   /* ${!cmd} must never run anything */

/* allocation counter = progress budget for loops that allocate on every iteration */
void *__real_malloc(size_t);
static long nalloc, alloc_budget = 20000;
void *__wrap_malloc(size_t n) {
    if (++nalloc > alloc_budget && vc_sh && vc_sh->in_case) {
        char cls[160]; snprintf(cls, sizeof cls, "nontermination:%s", vc_sh->label);
        vc_abort_case(cls);
    }
    return __real_malloc(n);
}

static char *hs(const char *s) { size_t n = strlen(s); char *p = malloc(n + 1); memcpy(p, s, n + 1); return p; }
static void keyof(char *key, size_t ksz, const char *fam, const char *s) { int n = snprintf(key, ksz, "%s:", fam); vc_hex(key + n, s, strlen(s) < (ksz - n - 1) / 2 ? strlen(s) : (ksz - n - 1) / 2); }

typedef void (*fn_t)(const char *fam, const char *s);
#define CASE_BEGIN(label) char key[VC_KEYMAX]; keyof(key, sizeof key, fam, s); if (!vc_case(label, key)) return; n_eval++; nalloc = 0;
#define CASE_END() do { const char *a_ = vc_asan_check(); if (a_) { char c_[160]; snprintf(c_, sizeof c_, "asan:%s:%s", a_, vc_sh->label); vc_viol(c_, "sanitizer report on input %s", key); } vc_case_end(); } while (0)

static void f_dec(const char *fam, const char *s, size_t (*dec)(char *), const char *label) {
    CASE_BEGIN(label);
    size_t l = strlen(s); char *p = hs(s);
    size_t n = dec(p);
    if (n > l) vc_viol("decoder-grows", "%s produced %zu bytes from %zu", label, n, l);
    else if (p[n] != 0) vc_viol("decoder-unterminated", "%s result not terminated at returned length %zu", label, n);
    free(p);
    n_nontrivial += l > 0;
    CASE_END();
}
static void f_url(const char *fam, const char *s) { f_dec(fam, s, qurl_decode, "qurl_decode"); }
static void f_b64(const char *fam, const char *s) { f_dec(fam, s, qbase64_decode, "qbase64_decode"); }
static void f_hex(const char *fam, const char *s) { f_dec(fam, s, qhex_decode, "qhex_decode"); }
static void f_query(const char *fam, const char *s) {
    CASE_BEGIN("qparse_queries");
    char *p = hs(s); int c = -7;
    qlisttbl_t *t = qparse_queries(NULL, p, '=', '&', &c);
    if (!t) vc_viol("query:null", "NULL table");
    else { if (c < 0 || (size_t)c != t->size(t)) vc_viol("query:count", "count %d size %zu", c, t->size(t)); t->free(t); }
    /* separator arguments that cannot occur in the string: a NUL, a byte above 0x7f (the input stays the subject, the separators are argument classes) */
    { const char eq[3] = {0, '=', (char)0x80}, sp[3] = {'&', 0, (char)0x80};
      for (int v = 0; v < 3; v++) { qlisttbl_t *t2 = qparse_queries(NULL, p, eq[v], sp[v], NULL); if (t2) t2->free(t2); } }
    if (strcmp(p, s)) vc_viol("query:modified-input", "input string was modified");
    free(p);
    n_nontrivial += strlen(s) > 0;
    CASE_END();
}
static void f_ini(const char *fam, const char *s) {
    CASE_BEGIN("qconfig_parse_str");
    char *p = hs(s);
    qlisttbl_t *t = qconfig_parse_str(NULL, p, '=');
    if (t) t->free(t);
    t = qconfig_parse_str(NULL, p, 0); if (t) t->free(t);     /* a NUL as separator argument */
    if (strcmp(p, s)) vc_viol("ini:modified-input", "input string was modified");
    free(p);
    n_nontrivial += strchr(s, '$') != NULL || strchr(s, '[') != NULL;
    CASE_END();
}
static char tmpdir[512];
static void f_inifile(const char *fam, const char *s) {
    CASE_BEGIN("qconfig_parse_file");
    char path[600]; snprintf(path, sizeof path, "%s/main.conf", tmpdir);
    int fd = open(path, O_WRONLY | O_CREAT | O_TRUNC, 0600);
    if (fd >= 0) { if (write(fd, s, strlen(s)) < 0) {} close(fd); }
    qlisttbl_t *t = qconfig_parse_file(NULL, path, '=');
    if (t) t->free(t);
    n_nontrivial += strstr(s, "@INCLUDE") != NULL;
    CASE_END();
}
/* Apache-style: parse an in-memory file */
static QAC_CB(accb) { (void)data; (void)userdata; return NULL; }
static int mfd = -1; static char mpath[64]; static uint8_t aflags;
static void f_apache(const char *fam, const char *s) {
    CASE_BEGIN("qaconf_parse");
    if (mfd < 0) { mfd = memfd_create("c17", 0); snprintf(mpath, sizeof mpath, "/proc/self/fd/%d", mfd); }
    if (ftruncate(mfd, 0) < 0 || pwrite(mfd, s, strlen(s), 0) < 0) { vc_case_end(); return; }
    qaconf_t *c = qaconf();
    qaconf_option_t o[] = {
        {"a", QAC_TAKEALL, accb, 0, QAC_SECTION_ALL},
        {"1", QAC_TAKE_BOOL, accb, 0, QAC_SECTION_ALL},
        {"On", QAC_TAKEALL | QAC_AA_INT | QAC_A2_FLOAT | QAC_A3_BOOL, accb, 0, QAC_SECTION_ALL},
        {"s", QAC_TAKEALL, accb, 2, QAC_SECTION_ALL},
        QAC_OPTION_END};
    c->addoptions(c, o);
    int r = c->parse(c, mpath, aflags);
    if (r < 0 && c->errmsg(c) == NULL) vc_viol("apache:no-errmsg", "parse returned -1 without an error message");
    c->free(c);
    n_nontrivial += strpbrk(s, "'\"\\<") != NULL;
    CASE_END();
}

static void gentok(const char *fam, const char **tok, int nt, int maxn, long shard, long nshards, fn_t f) {
    char buf[512]; long idx = 0;
    for (int n = 0; n <= maxn; n++) {
        long tot = 1; for (int i = 0; i < n; i++) tot *= nt;
        for (long x = 0; x < tot; x++) {
            if (idx++ % nshards != shard) continue;
            long y = x; char *o = buf;
            for (int i = 0; i < n; i++) { const char *t = tok[y % nt]; size_t l = strlen(t); memcpy(o, t, l); o += l; y /= nt; }
            *o = 0;
            f(fam, buf);
            if ((idx & 0xffff) == 0 && vc_deadline_hit()) return;
        }
    }
}

static const char *T_URL[] = {"%", "+", "a", "4", "G", " ", "\x80"};
static const char *T_B64[] = {"A", "z", "=", "+", "/", "\n", "\xff"};
static const char *T_HEX[] = {"0", "a", "F", "g", "\xff"};
static const char *T_QRY[] = {"&", "=", "%", "+", "a", " "};
static const char *T_INI[] = {"a", "b", "=", "${a}", "${b}", "${", "}", "$", "{", "[", "]", "#", "\n", " ", "${%E}", "${!x}", "a=${a}\n", "a=${b}\n", "b=x${a}${a}\n", "${%}", "${!}"};
/* whole lines whose values hold PIECES of references: an unbalanced "${a", a stray "}", "$" and "{x}" that only become a
 * reference when one value is substituted into another (cycles that no single stored value shows) */
static const char *T_INIREF[] = {"a=${b}}\n", "b=${a\n", "c=${a}\n", "a=${b}}${b}}\n", "b=${a}\n", "a=$\n", "c=${a}{a}\n", "a={a}$\n", "b=${\n", "c=${b}a}\n", "a=${b\n", "b=}\n", "c=${a}${b}\n", "a=x${c}\n",
    /* nested names, an empty value that joins '$' and '{', a plain '{' inside a name */
    "x=${${p}}\n", "p=x\n", "z=${x}\n", "x=$${e}{x}\n", "e=\n", "{x}=${v}}\n", "v=${{x}\n", "z=${v}}\n"};
static const char *T_INIF[] = {"@INCLUDE inc.conf", "@INCLUDE empty.conf", "@INCLUDE missing.conf", "@INCLUDE", " ", "\n", "a=b", "#", "${a}", "/", "inc.conf"};
static const char *T_AC[] = {"a", " ", "\t", "'", "\"", "\\", "<", "</", ">", "\n", "#", "1", "On", "s"};

/* over-long lines: each special character at each of the last positions before the fgets boundary */
static void setup_tmp(void);
static void cleanup_tmp(void);
static void run_longline(void) {
    const char *sp[] = {"'", "\"", "\\", " ", "<", ">", "a", "\n"};
    int bases[] = {4094, 4095, 4096, 4097, 4098, 8190, 8191, 8192, 8193, 8194};
    char *buf = malloc(9000);
    for (int fl = 0; fl < 4; fl += 3) for (int head = 0; head < 3; head++) for (size_t b = 0; b < sizeof bases / sizeof bases[0]; b++)
        for (int back = 0; back < 4; back++) for (size_t si = 0; si < 8; si++) for (int quoted = 0; quoted < 3; quoted++) {
            int len = bases[b];
            memset(buf, 'x', len); buf[len] = 0;
            const char *h = head == 0 ? "a " : head == 1 ? "<s " : "a '";
            memcpy(buf, h, strlen(h));
            if (quoted) buf[5] = quoted == 1 ? '\'' : '"';
            buf[len - 1 - back] = sp[si][0];
            char key[128]; snprintf(key, sizeof key, "longline:%d:%d:%d:%d:%zu:%d", fl, head, len, back, si, quoted);
            if (!vc_case("qaconf_parse", key)) continue;
            n_eval++; n_nontrivial++; nalloc = 0;
            if (mfd < 0) { mfd = memfd_create("c17", 0); snprintf(mpath, sizeof mpath, "/proc/self/fd/%d", mfd); }
            if (ftruncate(mfd, 0) < 0 || pwrite(mfd, buf, len, 0) < 0) continue;
            qaconf_t *c = qaconf();
            qaconf_option_t o[] = {{"a", QAC_TAKEALL, accb, 0, QAC_SECTION_ALL}, {"s", QAC_TAKEALL, accb, 2, QAC_SECTION_ALL}, QAC_OPTION_END};
            c->addoptions(c, o);
            c->parse(c, mpath, fl);
            c->free(c);
            const char *a = vc_asan_check();
            if (a) { char cl[160]; snprintf(cl, sizeof cl, "asan:%s:qaconf_parse", a); vc_viol(cl, "sanitizer report on %s", key); }
            /* the same bytes through the INI parser and the decoders */
            vc_label("qconfig_parse_str");
            char *p = hs(buf); qlisttbl_t *t = qconfig_parse_str(NULL, p, '='); if (t) t->free(t); free(p);
            a = vc_asan_check();
            if (a) { char cl[160]; snprintf(cl, sizeof cl, "asan:%s:qconfig_parse_str", a); vc_viol(cl, "sanitizer report on %s", key); }
            vc_case_end();
        }
    /* @INCLUDE lines padded with blanks to lengths around PATH_MAX, naming a loadable / a missing file */
    setup_tmp();
    for (int total = 4070; total <= 4110; total++) for (int where = 0; where < 2; where++) for (int exists = 0; exists < 2; exists++) {
        char key[96]; snprintf(key, sizeof key, "longinclude:%d:%d:%d", total, where, exists);
        if (!vc_case("qconfig_parse_file", key)) continue;
        n_eval++; n_nontrivial++; nalloc = 0;
        const char *name = exists ? "inc.conf" : "missing.conf"; size_t nl = strlen(name);
        char *doc = malloc(total + 64); char *q = doc; q += sprintf(q, "@INCLUDE ");
        int pad = total - (int)nl; if (pad < 0) pad = 0;
        if (where == 0) { memset(q, ' ', pad); q += pad; q += sprintf(q, "%s", name); }      /* blanks in front of the name */
        else { q += sprintf(q, "%s", name); memset(q, ' ', pad); q += pad; }                 /* blanks behind the name */
        q += sprintf(q, "\nk=v\n");
        char path[600]; snprintf(path, sizeof path, "%s/main.conf", tmpdir);
        int fd = open(path, O_WRONLY | O_CREAT | O_TRUNC, 0600); if (fd >= 0) { if (write(fd, doc, q - doc) < 0) {} close(fd); }
        qlisttbl_t *t = qconfig_parse_file(NULL, path, '=');
        if (t) t->free(t);
        free(doc);
        const char *a = vc_asan_check();
        if (a) { char cl[160]; snprintf(cl, sizeof cl, "asan:%s:qconfig_parse_file", a); vc_viol(cl, "sanitizer report on %s", key); }
        vc_case_end();
    }
    cleanup_tmp();
    free(buf);
    vc_sample("line of 4094..4098 / 8190..8194 bytes with each of ' \" \\ SP < > LF at the last 4 positions, unquoted / quoted");
}

static void setup_tmp(void) {
    snprintf(tmpdir, sizeof tmpdir, "%s/c17_%d", getenv("TMPDIR") ? getenv("TMPDIR") : "/tmp", (int)getpid());
    mkdir(tmpdir, 0700);
    char p[600]; snprintf(p, sizeof p, "%s/inc.conf", tmpdir);
    FILE *f = fopen(p, "w"); if (f) { fputs("x=1\ny=${x}\n", f); fclose(f); }
    snprintf(p, sizeof p, "%s/empty.conf", tmpdir); f = fopen(p, "w"); if (f) { fputs("\n", f); fclose(f); }     /* shorter than any directive naming it */
    if (chdir(tmpdir) < 0) {}
}
static void cleanup_tmp(void) {
    char p[600];
    snprintf(p, sizeof p, "%s/inc.conf", tmpdir); unlink(p);
    snprintf(p, sizeof p, "%s/empty.conf", tmpdir); unlink(p);
    snprintf(p, sizeof p, "%s/main.conf", tmpdir); unlink(p);
    if (chdir("/") < 0) {}
    rmdir(tmpdir);
}

static int run_family(const char *fam, int maxn, long shard, long nshards) {
#define G(T, f) gentok(fam, T, sizeof T / sizeof T[0], maxn, shard, nshards, f)
    if (!strcmp(fam, "url")) { G(T_URL, f_url); vc_sample("qurl_decode(\"a%%4\") , (\"%%\"), (\"+%%G\\x80\")"); }
    else if (!strcmp(fam, "b64")) { G(T_B64, f_b64); vc_sample("qbase64_decode(\"Az=\\n+/\\xff\")"); }
    else if (!strcmp(fam, "hex")) { G(T_HEX, f_hex); vc_sample("qhex_decode(\"0aF\") (odd length), (\"g\\xff\")"); }
    else if (!strcmp(fam, "query")) { G(T_QRY, f_query); vc_sample("qparse_queries(\"a=%%&=+\")"); }
    else if (!strcmp(fam, "ini")) { G(T_INI, f_ini); vc_sample("qconfig_parse_str(\"a=${a}\\nb=${a}\") , (\"[\\n${${a}\")"); }
    else if (!strcmp(fam, "iniref")) { G(T_INIREF, f_ini); vc_sample("qconfig_parse_str(\"a=${b}}\\nb=${a\\nc=${a}\")"); }
    else if (!strcmp(fam, "inifile")) { setup_tmp(); G(T_INIF, f_inifile); cleanup_tmp(); vc_sample("qconfig_parse_file: \"@INCLUDE inc.conf\\na=b\", \"@INCLUDE missing.conf\", \"@INCLUDE/\""); }
    else if (!strcmp(fam, "apache0")) { aflags = 0; G(T_AC, f_apache); vc_sample("qaconf parse: \"a '\\\\\", \"<s>\\na \\\"1\\n</s>\""); }
    else if (!strcmp(fam, "apache3")) { aflags = QAC_CASEINSENSITIVE | QAC_IGNOREUNKNOWN; G(T_AC, f_apache); vc_sample("qaconf parse (case-insensitive, ignore-unknown): \"ON 1 1.5 yes\""); }
    else if (!strcmp(fam, "longline")) run_longline();
    else return 1;
    return 0;
}

static int replay(const char *key) {
    char fam[32]; const char *c = strchr(key, ':'); if (!c) return 1;
    size_t l = c - key; memcpy(fam, key, l); fam[l] = 0;
    if (!strcmp(fam, "longline")) { run_longline(); return 0; }
    static unsigned char raw[VC_KEYMAX]; size_t n = vc_unhex(c + 1, raw); raw[n] = 0;
    const char *s = (const char *)raw;
    if (!strcmp(fam, "url")) f_url(fam, s); else if (!strcmp(fam, "b64")) f_b64(fam, s); else if (!strcmp(fam, "hex")) f_hex(fam, s);
    else if (!strcmp(fam, "query")) f_query(fam, s); else if (!strcmp(fam, "ini") || !strcmp(fam, "iniref")) f_ini(fam, s);
    else if (!strcmp(fam, "inifile")) { setup_tmp(); f_inifile(fam, s); cleanup_tmp(); }
    else if (!strcmp(fam, "apache0")) { aflags = 0; f_apache(fam, s); } else if (!strcmp(fam, "apache3")) { aflags = 3; f_apache(fam, s); }
    return 0;
}
static int worker(int argc, char **argv) {
    setenv("E", "env", 1); setenv("a", "${a}", 1);
    if (vc_replay_key) return replay(vc_replay_key);
    if (argc < 5) return 1;
    int rc = run_family(argv[1], atoi(argv[2]), atol(argv[3]), atol(argv[4]));
    vc_stat_add("evaluations", n_eval);
    vc_stat_add("nontrivial", n_nontrivial);
    return rc;
}
int main(int argc, char **argv) { return vc_main(argc, argv, worker); }
