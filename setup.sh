#!/bin/sh
# Offline setup: nothing to install; warm the object cache for the unchanged tree so that
# the first check does not pay for compiling the library in every sanitizer flavour.
cd "$(dirname "$0")" || exit 1
python3 - <<'PY'
import sys, os
sys.path.insert(0, os.path.join(os.getcwd(), "engines"))
from concurrent.futures import ThreadPoolExecutor
from common import driver
import registry
pool = ThreadPoolExecutor(max_workers=16)
seen = set()
for pid, spec in sorted(registry.PROPS.items()):
    for j in spec["jobs"]("quick", 0):
        k = (tuple(j.harness), j.flavour, tuple(j.wraps), tuple(j.cflags))
        if k in seen:
            continue
        seen.add(k)
        exe, err = driver.build(j, pool)
        if err:
            print("setup: build error for", pid, j.name, "\n", err)
            sys.exit(1)
print("setup: built %d harness binaries" % len(seen))
PY
