#!/usr/bin/env python3
"""tools/covrow.py: one line per property from evidence/*.json (states, transitions / evaluations, wall) - the measured numbers quoted in DESIGN.md section 8"""
import json, glob, os
V = os.path.dirname(os.path.dirname(os.path.abspath(__file__)))
for f in sorted(glob.glob(os.path.join(V, "evidence", "C*.json"))):
    e = json.load(open(f)); c = e["coverage"]
    print("%s tier=%s states=%.2g transitions=%.2g evaluations=%.2g exhaustive=%s wall=%ds" % (e["property_id"], e.get("tier"), c.get("states", 0), c.get("transitions", 0), c.get("evaluations", 0), c.get("exhaustive"), e.get("wall_s", 0)))
