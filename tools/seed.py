#!/usr/bin/env python3
"""Confirm an independently written property-breaking change and run the checks against it.

  tools/seed.py <seed-id> <property> <agent-dir> [--checks C01,C02] [--needs "..."] [--tier quick]

1. fresh scratch worktree of /repo HEAD under /tmp/confirm_<seed-id>; apply <agent-dir>/demo/patch.diff
2. build (cmake+ninja), run the repository's suite (must be 10/10), build+run the demonstration (must fail)
3. revert the patch, rebuild, run the demonstration (must pass); re-apply
4. run the listed checks with VERIF_REPO=<scratch worktree>; record exit codes and violation classes
5. write /verif/seeded/<seed-id>/{patch.diff, demo files, meta.json}; remove the scratch worktree
"""
import sys, os, subprocess, json, re, shutil, argparse, glob

V = os.path.dirname(os.path.dirname(os.path.abspath(__file__)))


def sh(cmd, cwd=None, timeout=1800, env=None):
    r = subprocess.run(cmd, shell=True, cwd=cwd, capture_output=True, text=True, errors="replace", timeout=timeout, env=env)
    return r.returncode, (r.stdout + r.stderr)


def main():
    ap = argparse.ArgumentParser()
    ap.add_argument("seed"); ap.add_argument("prop"); ap.add_argument("agentdir")
    ap.add_argument("--checks", default=""); ap.add_argument("--needs", default=""); ap.add_argument("--tier", default="quick")
    ap.add_argument("--keep", action="store_true")
    ap.add_argument("--demo-cmd", default="", help="build-and-run command of the demonstration, run in the scratch worktree (overrides the README line); {d} = worktree")
    a = ap.parse_args()
    adir = a.agentdir.rstrip("/")
    cdir = "/tmp/confirm_%s" % a.seed
    patch = os.path.join(adir, "demo", "patch.diff")
    meta = {"seed": a.seed, "property": a.prop, "needs_to_manifest": a.needs, "ran": []}
    sh("git -C /repo worktree remove --force %s" % cdir)
    rc, out = sh("git -C /repo worktree add -f --detach %s HEAD" % cdir)
    assert rc == 0, out
    try:
        rc, out = sh("git apply %s" % patch, cwd=cdir); assert rc == 0, "patch does not apply: " + out
        rc, out = sh("cmake -G Ninja -S . -B _build -DCMAKE_BUILD_TYPE=RelWithDebInfo >/dev/null && cmake --build _build", cwd=cdir)
        meta["ran"].append({"cmd": "cmake build with patch", "rc": rc}); assert rc == 0, out[-2000:]
        rc, out = sh("ctest --test-dir _build -j8 --timeout 900", cwd=cdir)
        m = re.search(r"(\d+)% tests passed, (\d+) tests failed out of (\d+)", out)
        meta["ran"].append({"cmd": "ctest with patch", "rc": rc, "summary": m.group(0) if m else out[-300:]})
        suite_ok = rc == 0 and m and m.group(2) == "0" and m.group(3) == "10"
        # demo command: the gcc/clang line of the README with the agent's directory replaced by ours
        readme = open(os.path.join(adir, "demo", "README")).read()
        os.makedirs(os.path.join(cdir, "demo"), exist_ok=True)
        for f in glob.glob(os.path.join(adir, "demo", "*")):
            if os.path.isfile(f) and not os.access(f, os.X_OK):
                shutil.copy(f, os.path.join(cdir, "demo"))
        lines = [l.strip() for l in readme.splitlines() if re.search(r"\b(gcc|clang|cc)\b", l) and "demo" in l]
        assert lines or a.demo_cmd, "no compile line in README"
        if not lines:
            lines = ["true"]
        demo_cmd = " && ".join(lines).replace(adir, cdir) if len(lines) > 1 and all("&&" not in l for l in lines) else lines[-1].replace(adir, cdir)
        demo_cmd = re.sub(r';\s*echo\s+"?exit=\$\?"?\s*$', "", demo_cmd)
        if a.demo_cmd:
            demo_cmd = a.demo_cmd.replace("{d}", cdir)
        rc1, out1 = sh("timeout 300 bash -c %s" % json.dumps(demo_cmd), cwd=cdir)
        meta["ran"].append({"cmd": "demo with patch: " + demo_cmd, "rc": rc1, "output_tail": out1[-600:]})
        rc, out = sh("git apply -R %s && cmake --build _build" % patch, cwd=cdir); assert rc == 0, out[-1000:]
        rc0, out0 = sh("timeout 300 bash -c %s" % json.dumps(demo_cmd), cwd=cdir)
        meta["ran"].append({"cmd": "demo without patch", "rc": rc0, "output_tail": out0[-300:]})
        rc, out = sh("git apply %s && cmake --build _build" % patch, cwd=cdir); assert rc == 0, out[-1000:]
        confirmed = bool(suite_ok and rc1 != 0 and rc0 == 0)
        meta["confirmed"] = confirmed
        meta["confirmation"] = "suite 10/10 with patch: %s; demo rc with patch %d, without %d" % (suite_ok, rc1, rc0)
        print("CONFIRM %s: %s" % (a.seed, meta["confirmation"]))
        results = {}
        if confirmed:
            env = dict(os.environ, VERIF_REPO=cdir)
            for chk in [c for c in a.checks.split(",") if c]:
                rc, out = sh("./check %s --tier %s" % (chk, a.tier), cwd=V, env=env, timeout=7200)
                classes = sorted(set(re.findall(r"class=(\S+)", out)))
                results[chk] = {"rc": rc, "violation_classes": classes[:12], "summary": out.strip().splitlines()[-1][:300] if out.strip() else ""}
                print("  %s -> rc=%d %s" % (chk, rc, ",".join(classes[:6])))
            # evidence files were overwritten by runs against the changed tree: restore them from git
            sh("git checkout -- evidence", cwd=V)
        meta["checks"] = results
        meta["caught_by"] = sorted(k for k, v in results.items() if v["rc"] == 1)
        sd = os.path.join(V, "seeded", a.seed)
        os.makedirs(sd, exist_ok=True)
        shutil.copy(patch, os.path.join(sd, "patch.diff"))
        for f in glob.glob(os.path.join(adir, "demo", "*")):
            if os.path.isfile(f) and not os.access(f, os.X_OK) and os.path.getsize(f) < 200000:
                shutil.copy(f, sd)
        json.dump(meta, open(os.path.join(sd, "meta.json"), "w"), indent=1)
    finally:
        if not a.keep:
            sh("git -C /repo worktree remove --force %s" % cdir)
            sh("rm -rf %s" % cdir)


if __name__ == "__main__":
    main()
