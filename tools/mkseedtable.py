#!/usr/bin/env python3
"""Markdown table of the seeded changes (seeded/*/meta.json) for DESIGN.md section 10."""
import json, glob, os
V = os.path.dirname(os.path.dirname(os.path.abspath(__file__)))
rows = []
for f in sorted(glob.glob(os.path.join(V, "seeded", "*", "meta.json"))):
    m = json.load(open(f))
    patch = open(os.path.join(os.path.dirname(f), "patch.diff")).read()
    files = sorted(set(l[6:].strip() for l in patch.splitlines() if l.startswith("+++ b/")))
    caught = []
    for c, r in sorted(m.get("checks", {}).items()):
        caught.append("%s: %s" % (c, "**caught** (%s)" % ", ".join(r["violation_classes"][:3]) if r["rc"] == 1 else "not caught" if r["rc"] == 0 else "rc=%d" % r["rc"]))
    rows.append("| %s | %s | %s | %s | %s |" % (m["seed"], m["property"], ", ".join(os.path.basename(x) for x in files), m.get("note", m.get("needs_to_manifest", "")) or "", "; ".join(caught)))
print("| seed | breaks | file | what it is / what it needs | checks run against it (quick tier) |")
print("|---|---|---|---|---|")
print("\n".join(rows))
