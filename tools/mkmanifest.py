#!/usr/bin/env python3
"""Regenerate MANIFEST.json from engines/registry.py (checks that exist) + properties.jsonl."""
import json, os, sys
V = os.path.dirname(os.path.dirname(os.path.abspath(__file__)))
sys.path.insert(0, os.path.join(V, "engines"))
import registry
ids = [json.loads(l)["id"] for l in open(os.path.join(V, "properties.jsonl"))]
checks, na = [], []
TECH = {}
for p_ in ("C01", "C02", "C03", "C04", "C05", "C08", "C09", "C10"):
    TECH[p_] = ("seqmc", "explicit-state model checking of the implementation: breadth-first closure over API histories (state = history replayed on a fresh object, deduplicated by a canonical state string), reference model and structural invariants checked on every transition; plus depth-bounded enumeration of unmerged histories (reads included) from non-initial states")
for p_ in ("C06", "C07"):
    TECH[p_] = ("imagemc", "explicit-state model checking of the implementation: breadth-first search over memory images restored at a different address before every transition; map/accounting model, well-formedness invariant and relocation/residue/address differentials on every transition")
for p_ in ("C11", "C12"):
    TECH[p_] = ("seqmc+imagemc", "the explicit-state searches of C01-C10 (every reachable state x every operation) with sanitizer, allocation-ledger, guard-zone, uninitialised-stack and ownership oracles evaluated on every transition")
TECH["C13"] = ("sched", "stateless model checking: exhaustive enumeration of thread schedules up to a preemption bound (real pthreads serialised at the library's lock operations), every execution checked for linearizability by brute force, deadlock and data races (TSan under the same scheduler); the lock-wait time-out of the library is a bounded deviation of the same enumeration")
for p_ in ("C14", "C15"):
    TECH[p_] = ("faultenum", "exhaustive enumeration of (state, operation, entry lock depth, allocation-fault position) with a differential oracle against fault-free executions and pthread-level lock-depth tracking")
TECH["C14"] = ("faultenum+sched", TECH["C14"][1] + "; plus stateless enumeration of 2-thread schedules with a bounded number of lock-wait time-outs (the library's stall breaker runs) - every thread must still complete and the lock must end free")
for p_ in ("C16", "C17", "C18", "C19", "C20"):
    TECH[p_] = ("inputmc", "bounded-exhaustive enumeration of inputs / argument tuples / generated documents (complete up to the stated length over the stated alphabet), each executed on the real code and compared with an independent reference or the generator's known meaning; sanitizers and uninitialised-stack oracle; plus exhaustive enumeration of the schedules of every pair of calls run by two threads (re-entrancy: differential against the calls made alone, TSan under a scheduler it cannot see)")
for pid in ids:
    s = registry.PROPS.get(pid)
    if not s or not s.get("claim", True):
        na.append({"property_id": pid, "reason": registry.NOT_YET.get(pid, "check not built yet in this session; planned in DESIGN.md section 2")})
        continue
    checks.append({
        "property_id": pid,
        "quick_cmd": "./check %s --tier quick" % pid,
        "thorough_cmd": "./check %s --tier thorough" % pid,
        "evidence_file": "evidence/%s.json" % pid,
        "replay_cmd_template": "./check %s --replay {path}" % pid,
        "engine": TECH[pid][0],
        "level_claimed": {"category": s["level"], "text": s.get("level_text", s["rule"]), "design_ref": "DESIGN.md section 2, " + pid},
        "level_note": s.get("level_note", "; ".join(s.get("assumptions", [])) or "bounded exhaustive enumeration on the real code; nothing claimed beyond the bounds"),
        "technique": TECH[pid][1],
    })
hooks = json.load(open(os.path.join(V, "tools", "hooks.json")))
m = {"version": 1,
     "setup_cmd": "./setup.sh",
     "hooks": hooks,
     "engines": registry.ENGINES,
     "checks": checks,
     "notes": "All checks rebuild from /repo's working tree (VERIF_REPO overrides) into /verif/build (object cache keyed by source hash). Exit 0 held / 1 VIOLATION / 2 infrastructure error.",
     "not_applicable": na}
json.dump(m, open(os.path.join(V, "MANIFEST.json"), "w"), indent=1)
print("checks:", [c["property_id"] for c in checks], "not_applicable:", [n["property_id"] for n in na])
