#!/usr/bin/env python3
"""Regenerate MANIFEST.json from engines/registry.py (checks that exist) + properties.jsonl."""
import json, os, sys
V = os.path.dirname(os.path.dirname(os.path.abspath(__file__)))
sys.path.insert(0, os.path.join(V, "engines"))
import registry
ids = [json.loads(l)["id"] for l in open(os.path.join(V, "properties.jsonl"))]
checks, na = [], []
for pid in ids:
    s = registry.PROPS.get(pid)
    if not s or not s.get("claim", True):
        na.append({"property_id": pid, "reason": registry.NOT_YET.get(pid, "check not built yet in this session; planned in DESIGN.md section 2")})
        continue
    checks.append({
        "property_id": pid,
        "quick_cmd": "./check %s --tier quick" % pid,
        "thorough_cmd": "./check %s --tier thorough" % pid,
        "evidence_file": "evidence/%s.json" % pid,
        "replay_cmd_template": "./check %s --replay {path}" % pid,
        "engine": s.get("engine", ""),
        "level_claimed": {"category": s["level"], "text": s.get("level_text", s["rule"]), "design_ref": "DESIGN.md section 2, " + pid},
        "level_note": s.get("level_note", "; ".join(s.get("assumptions", [])) or "bounded exhaustive enumeration on the real code; nothing claimed beyond the bounds"),
        "technique": s.get("technique", ""),
    })
hooks = json.load(open(os.path.join(V, "tools", "hooks.json")))
m = {"version": 1,
     "setup_cmd": "./setup.sh",
     "hooks": hooks,
     "engines": registry.ENGINES,
     "checks": checks,
     "notes": "All checks rebuild from /repo's working tree (VERIF_REPO overrides) into /verif/build (object cache keyed by source hash). Exit 0 held / 1 VIOLATION / 2 infrastructure error.",
     "not_applicable": na}
json.dump(m, open(os.path.join(V, "MANIFEST.json"), "w"), indent=1)
print("checks:", [c["property_id"] for c in checks], "not_applicable:", [n["property_id"] for n in na])
