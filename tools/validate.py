#!/usr/bin/env python3
import json, sys, os, glob
import jsonschema
V = os.path.dirname(os.path.dirname(os.path.abspath(__file__)))
jsonschema.validate(json.load(open(V + '/MANIFEST.json')), json.load(open('/root/.vp/MANIFEST.schema.json')))
for f in sorted(glob.glob(V + '/evidence/*.json')):
    jsonschema.validate(json.load(open(f)), json.load(open('/root/.vp/EVIDENCE.schema.json')))
    print('ok', os.path.basename(f))
print('manifest ok')
