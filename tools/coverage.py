#!/usr/bin/env python3
"""Line coverage of the anchored library sources under all quick-tier jobs (a diagnostic, not a check).

Builds the repository sources once with --coverage (no sanitizers), links every harness against them, runs every
job of every property at the quick tier with a short deadline, then runs gcov and lists the lines of the anchored
files that no job executed. Output: build/cov/report.txt
"""
import os, sys, subprocess, glob, json, shutil
from concurrent.futures import ThreadPoolExecutor
V = os.path.dirname(os.path.dirname(os.path.abspath(__file__)))
sys.path.insert(0, os.path.join(V, "engines"))
from common import driver
import registry

COV = os.path.join(V, "build", "cov")
shutil.rmtree(COV, ignore_errors=True)
os.makedirs(COV + "/obj"); os.makedirs(COV + "/bin"); os.makedirs(COV + "/tmp")
CF = ["-std=gnu99", "-DNDEBUG", "-g", "-O0", "-fno-builtin", "--coverage", "-w", "-I%s/src/internal" % driver.REPO, "-I%s/include/qlibc" % driver.REPO, "-I%s/include" % driver.REPO]
HF = ["-std=gnu11", "-D_GNU_SOURCE", "-DVC_COVERAGE", "-g", "-O1", "-fno-builtin", "-w", "-I%s/src/internal" % driver.REPO, "-I%s/include/qlibc" % driver.REPO, "-I%s/include" % driver.REPO, "-I%s/common" % driver.ENG, "-I%s/seqmc" % driver.ENG]
pool = ThreadPoolExecutor(16)
srcs = driver.repo_sources()


def cc(src):
    o = os.path.join(COV, "obj", os.path.basename(src).replace(".c", ".o"))
    subprocess.run(["gcc"] + CF + ["-c", src, "-o", o], check=True)
    return o


objs = list(pool.map(cc, srcs))
only = sys.argv[1:] or sorted(registry.PROPS)
seen = {}
jobs = []
for pid in only:
    for j in registry.PROPS[pid]["jobs"]("quick", 0):
        sig = (tuple(j.harness), tuple(j.args), tuple(j.wraps))
        if sig in seen or j.flavour == "tsan":
            continue
        seen[sig] = 1
        jobs.append(j)
bins = {}
for j in jobs:
    k = (tuple(j.harness), tuple(j.wraps), tuple(j.cflags))
    if k in bins:
        continue
    exe = os.path.join(COV, "bin", "%s_%d" % (j.harness[0].replace("/", "_").replace(".c", ""), len(bins)))
    hs = [os.path.join(driver.ENG, h) for h in j.harness]
    r = subprocess.run(["gcc"] + HF + list(j.cflags) + hs + objs + ["-o", exe, "--coverage", "-pthread", "-lm"] + ["-Wl,--wrap=%s" % w for w in j.wraps], capture_output=True, text=True)
    if r.returncode:
        print("link failed", j.name, r.stderr[-500:]); continue
    bins[k] = exe


def run(j):
    exe = bins.get((tuple(j.harness), tuple(j.wraps), tuple(j.cflags)))
    if not exe:
        return
    env = dict(os.environ, VC_DEADLINE_S="90", TMPDIR=COV + "/tmp")
    try:
        subprocess.run([exe] + j.args, stdout=subprocess.DEVNULL, stderr=subprocess.DEVNULL, env=env, timeout=400, cwd=COV + "/tmp")
    except subprocess.TimeoutExpired:
        pass


# gcda updates are merged at exit under a file lock, so jobs may run in parallel
list(pool.map(run, jobs))
rep = []
anch = set()
for l in open(os.path.join(V, "properties.jsonl")):
    for f in json.loads(l)["anchors"]["files"]:
        if f.endswith(".c"):
            anch.add(f)
os.chdir(COV + "/obj")
tot = 0; unc = 0
for f in sorted(anch):
    src = os.path.join(driver.REPO, f)
    r = subprocess.run(["gcov", "-o", COV + "/obj", src], capture_output=True, text=True)
    g = os.path.basename(f) + ".gcov"
    if not os.path.exists(g):
        rep.append("%s: no gcov output" % f); continue
    miss = []
    n = 0
    for line in open(g, errors="replace"):
        parts = line.split(":", 2)
        if len(parts) < 3:
            continue
        c = parts[0].strip()
        if c == "-":
            continue
        n += 1
        if c in ("#####", "====="):
            miss.append("%s: %s" % (parts[1].strip(), parts[2].rstrip()))
    tot += n; unc += len(miss)
    rep.append("== %s: %d of %d executable lines never executed" % (f, len(miss), n))
    rep += ["   " + m for m in miss]
rep.insert(0, "TOTAL: %d of %d executable lines of the anchored sources never executed by any quick job" % (unc, tot))
open(os.path.join(COV, "report.txt"), "w").write("\n".join(rep) + "\n")
print(rep[0])
