#!/bin/bash
# tools/trymut.sh <patch.diff> <check> [<check> ...]: run checks against a scratch worktree of /repo HEAD with the patch applied
set -e
P=$(readlink -f "$1"); shift
D=/tmp/try_$$
git -C /repo worktree add -f --detach $D HEAD >/dev/null 2>&1
trap "git -C /repo worktree remove --force $D >/dev/null 2>&1; rm -rf $D; git -C /verif checkout -- evidence" EXIT
git -C $D apply "$P"
for c in "$@"; do
  VERIF_REPO=$D /verif/check $c 2>&1 | grep -v "^  \.\.\." | cut -c1-220 | tail -4
done
