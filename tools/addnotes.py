#!/usr/bin/env python3
"""tools/addnotes.py <notes.json>: put the one-line description of each seeded change into its meta.json (field 'note'); seed.py rewrites meta.json on every run"""
import json, sys, os
V = os.path.dirname(os.path.dirname(os.path.abspath(__file__)))
for seed, note in json.load(open(sys.argv[1])).items():
    f = os.path.join(V, "seeded", seed, "meta.json")
    if not os.path.exists(f):
        print("missing", seed); continue
    m = json.load(open(f)); m["note"] = note; json.dump(m, open(f, "w"), indent=1)
